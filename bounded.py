#!/usr/bin/env python3
"""Bounded stand-ins (labelled bounded, never counted as proved) for the composition steps the contracts leave to
hand arguments: the harnesses in bounded/*_test.go are injected into /repo's package through `go test -overlay`
(nothing is written to /repo) and run exhaustively up to a stated bound against the real code.
usage: bounded.py <ID> <tier> [--single <json>]      exit 0 quiet / 1 violation; merges its figures into evidence/<ID>.json"""
import glob, json, os, subprocess, sys, tempfile, shutil, time

V = os.path.dirname(os.path.abspath(__file__))
REPO = os.environ.get("VERIF_REPO", "/repo")
BOUNDS = {  # property -> (quick bound, thorough bound)
    "C01": (5, 6), "C02": (2, 3), "C15": (3, 4), "C20": (6, 8),
}

def main():
    pid, tier = sys.argv[1], sys.argv[2]
    single = sys.argv[4] if len(sys.argv) > 4 and sys.argv[3] == "--single" else None
    if pid not in BOUNDS:
        return 0
    bound = BOUNDS[pid][1 if tier == "thorough" else 0]
    tmp = tempfile.mkdtemp(prefix="govc-bounded-")
    t0 = time.time()
    try:
        repl = {os.path.join(REPO, "zz_verif_bounded_" + os.path.basename(f).lower()): f for f in glob.glob(os.path.join(V, "bounded", "*_test.go"))}
        ov = os.path.join(tmp, "ov.json"); json.dump({"Replace": repl}, open(ov, "w"))
        env = dict(os.environ, GOFLAGS="-mod=mod", GOPROXY="off", GOSUMDB="off", GOTOOLCHAIN="local", VERIF_BOUND=str(bound))
        if single is not None:
            env["VERIF_SINGLE"] = single
        else:
            env.pop("VERIF_SINGLE", None)
        r = subprocess.run(["go", "test", "-overlay", ov, "-vet=off", "-count=1", "-v", "-timeout", "1500s", "-run", f"^TestVerifBounded_{pid}$", "."],
                           cwd=REPO, env=env, capture_output=True, text=True)
    finally:
        shutil.rmtree(tmp, ignore_errors=True)
    out = r.stdout
    stats, fails, known = None, [], []
    for line in out.splitlines():
        if line.startswith("BOUNDED-STATS "): stats = json.loads(line[len("BOUNDED-STATS "):])
        elif line.startswith("BOUNDED-FAIL "): fails.append(json.loads(line[len("BOUNDED-FAIL "):]))
        elif line.startswith("BOUNDED-KNOWN "): known.append(json.loads(line[len("BOUNDED-KNOWN "):]))
    rc = 0
    label = f"bounded stand-in for {pid} (bound {bound}, tier {tier})"
    if stats is None and not fails:
        # the harness did not build or crashed: this says nothing about the property
        msg = (r.stderr + out)[-1500:]
        crashed = "panic:" in msg and "[build failed]" not in msg
        if crashed:
            path = write_replay(pid, "crash", {"output": msg}, None)
            print(f"  {label}: the real code panicked\nVIOLATION property={pid} replay={path}")
            rc = 1
        else:
            print(f"  {label}: SKIPPED, harness did not build against the current tree (not a verdict)\n{msg[-600:]}")
        merge_evidence(pid, {"label": "bounded, not proved", "skipped": True, "reason": msg[-400:]}, 0)
        return rc
    findings = json.load(open(os.path.join(V, "known_findings.json")))
    seen_known = set()
    for k in known:
        cls = "bounded:" + k.get("class", "?")
        entry = next((f for f in findings if f["property"] == pid and f["obligation"] == cls and f["status"] != "fixed"), None)
        if entry is None:
            if cls not in seen_known:
                seen_known.add(cls)
                path = write_replay(pid, cls.replace(":", "_"), k, k.get("input"))
                print(f"  {label}: {cls} is not a listed open finding")
                print(f"VIOLATION property={pid} replay={path}")
            rc = 1
        elif cls not in seen_known:
            seen_known.add(cls)
            print(f"KNOWN-FINDING: property={pid} {entry['what']}")
    for i, f in enumerate(fails[:5]):
        inp = f.get("input") if "input" in f else f.get("single")
        path = write_replay(pid, f"bounded_{i}", f, inp)
        print(f"  {label}: real code disagrees with the reference on {json.dumps(inp)[:200]}")
        print(f"VIOLATION property={pid} replay={path}")
        rc = 1
    if stats:
        n = stats.get("failures", 0)
        print(f"  {label}: {stats.get('evaluations')} executions of the real code, {stats.get('distinct_nontrivial')} non-trivial, {n} failures, exhaustive up to the bound, {time.time()-t0:.1f}s")
        stats["label"] = "bounded, not proved: exhaustive up to the stated bound only"
        stats["wall_s"] = round(time.time() - t0, 1)
        stats["harness"] = f"bounded/{'C15' if pid == 'C02' else pid}_test.go via go test -overlay on {REPO}"
    merge_evidence(pid, stats or {}, len(fails))
    return rc

def write_replay(pid, name, case, single):
    d = os.path.join(V, "replays"); os.makedirs(d, exist_ok=True)
    path = os.path.join(d, f"{pid}_{name}.txt")
    with open(path, "w") as f:
        f.write(f"property: {pid}\nkind: bounded stand-in (real code against the reference, failing input found)\n")
        f.write("case: " + json.dumps(case, indent=1) + "\n")
        if single is not None:
            f.write("bounded-single: " + json.dumps(single) + "\n")
    return path

def merge_evidence(pid, stats, nfail):
    p = os.path.join(os.environ.get("VERIF_EVIDENCE_DIR") or os.path.join(V, "evidence"), pid + ".json")
    try:
        ev = json.load(open(p))
    except Exception:
        return
    ev.setdefault("coverage", {})["bounded_standin"] = stats
    ev.setdefault("assumptions", [])
    note = "bounded stand-in (coverage.bounded_standin) is exhaustive only up to its stated bound and is not part of the proof"
    if note not in ev["assumptions"]:
        ev["assumptions"].append(note)
    if nfail:
        ev["violations"] = ev.get("violations", 0) + nfail
    json.dump(ev, open(p, "w"), indent=1)

if __name__ == "__main__":
    sys.exit(main())
