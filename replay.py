#!/usr/bin/env python3
"""Replay of a recorded violation. If the replay file carries a Go test (section '--- go test (<package dir>) ---')
it is run against /repo's current tree through `go test -overlay` (nothing is written to /repo): exit 1 with a
VIOLATION line if the failure reproduces, exit 0 if the current tree passes. Otherwise the file (obligation, solver
answer, model, SMT query) is printed and the exit status is 1: there is no executable input to replay."""
import json, os, subprocess, sys, tempfile, shutil
prop, path = sys.argv[1], sys.argv[2]
text = open(path).read()
if "\nbounded-single: " in text:
    single = text.split("\nbounded-single: ", 1)[1].split("\n", 1)[0]
    print(text[:3000])
    r = subprocess.run([sys.executable, os.path.join(os.path.dirname(os.path.abspath(__file__)), "bounded.py"), prop, "quick", "--single", single], capture_output=True, text=True)
    print(r.stdout[-3000:])
    if r.returncode != 0 or "KNOWN-FINDING" in r.stdout:
        print(f"VIOLATION property={prop} replay={path}" if r.returncode != 0 else "the recorded input is a listed known finding on the current tree")
        sys.exit(1 if r.returncode != 0 else 0)
    print("the recorded input no longer fails on the current tree")
    sys.exit(0)
marker = "--- go test ("
if marker not in text:
    print(text[:6000])
    print("no executable replay in this file (the verifier gave no input that could be rendered); re-run the SMT query shown above")
    sys.exit(1)
print(text.split("--- solver model ---")[0])
rest = text.split(marker, 1)[1]
pkgdir, rest = rest.split(") ---\n", 1)
src = rest.split("\n--- end go test ---", 1)[0]
helper = ""
if "--- go helper ---\n" in text:
    helper = text.split("--- go helper ---\n", 1)[1].split("\n--- end go helper ---", 1)[0]
tmp = tempfile.mkdtemp(prefix="govc-replay-")
try:
    repl = {}
    f = os.path.join(tmp, "verif_replay_test.go"); open(f, "w").write(src); repl[os.path.join(pkgdir, "verif_replay_test.go")] = f
    if helper:
        h = os.path.join(tmp, "verif_eval_test.go"); open(h, "w").write(helper); repl[os.path.join(pkgdir, "verif_eval_test.go")] = h
    ov = os.path.join(tmp, "ov.json"); json.dump({"Replace": repl}, open(ov, "w"))
    env = dict(os.environ, GOFLAGS="-mod=mod", GOPROXY="off", GOSUMDB="off", GOTOOLCHAIN="local")
    r = subprocess.run(["go", "test", "-overlay", ov, "-vet=off", "-timeout", "60s", "-count=1", "-v", "-run", "^TestVerifReplay$", "."],
                       cwd=pkgdir, env=env, capture_output=True, text=True)
    print(r.stdout[-3000:], r.stderr[-1000:])
    if "CONFIRMED:" in r.stdout:
        print(f"VIOLATION property={prop} replay={path}")
        sys.exit(1)
    print("the recorded input no longer fails on the current tree")
    sys.exit(0)
finally:
    shutil.rmtree(tmp, ignore_errors=True)
