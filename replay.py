#!/usr/bin/env python3
"""Replay of a recorded violation: prints the replay file (obligation, solver output) and, when the file carries a
Go test (section '--- go test ---'), runs it against /repo through `go test -overlay` (nothing is written to /repo)."""
import json, os, subprocess, sys, tempfile, shutil
prop, path = sys.argv[1], sys.argv[2]
text = open(path).read()
print(text[:4000])
marker = "--- go test ("
if marker not in text:
    print("no executable replay in this file (the verifier gave no input that could be rendered); re-run the SMT query shown above")
    sys.exit(1)
head, rest = text.split(marker, 1)
pkgdir, rest = rest.split(") ---\n", 1)
src = rest.split("\n--- end go test ---", 1)[0]
tmp = tempfile.mkdtemp(prefix="govc-replay-")
try:
    f = os.path.join(tmp, "verif_replay_test.go"); open(f, "w").write(src)
    ov = os.path.join(tmp, "ov.json"); json.dump({"Replace": {os.path.join(pkgdir, "verif_replay_test.go"): f}}, open(ov, "w"))
    env = dict(os.environ, GOFLAGS="-mod=mod", GOPROXY="off", GOSUMDB="off", GOTOOLCHAIN="local")
    r = subprocess.run(["go", "test", "-overlay", ov, "-vet=off", "-timeout", "60s", "-count=1", "-run", "^TestVerifReplay$", "."], cwd=pkgdir, env=env)
    if r.returncode != 0:
        print(f"VIOLATION property={prop} replay={path}")
        sys.exit(1)
    print("replay passes on the current tree")
    sys.exit(0)
finally:
    shutil.rmtree(tmp, ignore_errors=True)
