#!/usr/bin/env python3
"""tools/seedround.py <worktree prefix> <list file>: for every line "<prop> <name> <pkgdir>" of the list, confirm the seeded
change written by a sub-agent in <prefix><prop>/OUT with tools/seedcheck.sh, run the property's check against it and write
seeded/<name>/meta.json (caught_by = the obligations that failed). Prints one summary line per change."""
import json, os, re, subprocess, sys
V = os.path.dirname(os.path.dirname(os.path.abspath(__file__)))
prefix, lst = sys.argv[1], sys.argv[2]
for line in open(lst):
    if not line.strip(): continue
    prop, name, pkg = line.split()
    src = f"{prefix}{prop}/OUT"
    r = subprocess.run([os.path.join(V, "tools/seedcheck.sh"), src, name, prop, pkg], capture_output=True, text=True)
    out = r.stdout + r.stderr
    failed = [l.strip() for l in out.splitlines() if l.strip().startswith(("failed ", "undischarged ", "missing "))]
    bounded = [l.strip() for l in out.splitlines() if "real code disagrees" in l]
    m = re.search(r"exit=(\d+)", out)
    code = m.group(1) if m else "?"
    demo_ok = "== demo with the change (must fail)" in out and "FAIL" in out.split("== demo with the change (must fail)")[1].split("==")[0]
    suite_ok = out.split("== existing tests with the change")[1].split("==")[0].count("ok  ") >= 2 if "== existing tests with the change" in out else False
    nochange_ok = "ok  " in out.split("== demo without the change")[1].split("==")[0] if "== demo without the change" in out else False
    caught = "; ".join(sorted({re.sub(r"(\.\d+)+:", ":", f.split(" ", 1)[1]).split(":")[0] + ":" + re.sub(r"(\.\d+)+:", ":", f.split(" ", 1)[1]).split(":")[1].split(" ")[0] for f in failed}))
    if bounded:
        caught += ("; " if caught else "") + "bounded stand-in (failing input found)"
    status = "CAUGHT" if code == "1" else "MISSED"
    print(f"{status} {name}: confirmed(no-change pass={nochange_ok}, suite pass={suite_ok}, demo fails={demo_ok}) {caught[:300]}")
    d = os.path.join(V, "seeded", name)
    if os.path.isdir(d):
        meta = open(os.path.join(src, "meta.txt")).read() if os.path.exists(os.path.join(src, "meta.txt")) else ""
        json.dump({"property": prop, "breaks": meta,
                   "origin": "written by a fresh sub-agent that saw only the property text and a scratch worktree of /repo (verif files removed)",
                   "confirmed": f"tools/seedcheck.sh: demonstration passes without the change: {nochange_ok}; existing suite passes with it: {suite_ok}; demonstration fails with it: {demo_ok}",
                   "checked": f"git -C /repo apply patch.diff; ./check {prop} --tier quick; git -C /repo checkout -- .  (exit {code})",
                   "caught_by": caught if code == "1" else "MISSED on this run", "first_run": status.lower(),
                   "demonstration": "seed_demo_test.go.txt (rename to seed_demo_test.go in the package directory)"},
                  open(os.path.join(d, "meta.json"), "w"), indent=1)
        mt = os.path.join(d, "meta.txt")
        if os.path.exists(mt): os.remove(mt)
