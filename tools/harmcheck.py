#!/usr/bin/env python3
"""tools/harmcheck.py <diff> [<prop> ...]: false-alarm probe. Applies a behaviour-preserving diff to a scratch copy of
/repo (never to /repo itself), requires it to build and pass the test suite, then runs the deductive check of every claimed
property (or of the listed ones) and the bounded stand-ins against the copy. Prints QUIET or ALARM with the obligations
that failed. Not a registered check; evidence files are not touched (govc writes to a scratch verif directory)."""
import json, os, re, shutil, subprocess, sys, tempfile, concurrent.futures as cf

V = os.path.dirname(os.path.dirname(os.path.abspath(__file__)))
ENV = dict(os.environ, GOFLAGS="-mod=mod", GOPROXY="off", GOSUMDB="off", GOTOOLCHAIN="local")
FLAKY = {"TestJoe_Shutdown", "TestConnection_Unsubscriptions"}

def main():
    diff = os.path.abspath(sys.argv[1])
    props = sys.argv[2:] or [c["property_id"] for c in json.load(open(os.path.join(V, "MANIFEST.json")))["checks"]]
    tmp = tempfile.mkdtemp(prefix="govc-harm-")
    try:
        repo = os.path.join(tmp, "repo")
        os.makedirs(repo)   # the committed tree, not the working tree: seeded changes may be applied to /repo meanwhile
        subprocess.run("git -C /repo archive HEAD | tar -x -C " + repo, shell=True, check=True)
        a = subprocess.run(["patch", "-p1", "-s", "-i", diff], cwd=repo, capture_output=True, text=True)
        if a.returncode != 0:
            print("NOAPPLY", a.stdout[-300:], a.stderr[-300:]); return 2
        b = subprocess.run(["go", "build", "-tags", "verif", "./..."], cwd=repo, env=ENV, capture_output=True, text=True)
        if b.returncode != 0:
            print("NOBUILD", b.stderr[-400:]); return 2
        for attempt in range(3):
            t = subprocess.run(["go", "test", "-vet=off", "-count=1", "./..."], cwd=repo, env=ENV, capture_output=True, text=True)
            if t.returncode == 0: break
            failing = set(re.findall(r"^--- FAIL: (\w+)", t.stdout, re.M))
            if not failing or not failing <= FLAKY or attempt == 2:
                print("TESTS-FAIL", t.stdout[-400:]); return 2

        def one(p):
            vdir = os.path.join(tmp, "verif_" + p); os.makedirs(vdir)
            for f in ("properties.map", "known_findings.json", "obligations.baseline.json"):
                shutil.copy(os.path.join(V, f), vdir)
            r = subprocess.run([os.path.join(V, "bin/govc"), "-repo", repo, "-verif", vdir, "-prop", p, "-nocache"],
                               capture_output=True, text=True, timeout=1200)
            out = r.stdout + r.stderr
            bad = [l.strip()[:200] for l in out.splitlines() if l.strip().startswith(("failed ", "undischarged ", "missing ", "ENGINE-FAULT", "unsupported"))]
            rc = r.returncode
            if p in ("C01", "C02", "C15", "C20"):
                os.makedirs(os.path.join(vdir, "evidence"), exist_ok=True)
                b = subprocess.run(["python3", os.path.join(V, "bounded.py"), p, "quick"], capture_output=True, text=True,
                                   env=dict(ENV, VERIF_REPO=repo, VERIF_EVIDENCE_DIR=os.path.join(vdir, "evidence")), timeout=1200)
                if b.returncode != 0:
                    rc = rc or 1; bad += [l[:200] for l in (b.stdout + b.stderr).splitlines() if "VIOLATION" in l or "disagrees" in l][:3]
            return p, rc, bad
        alarms = 0
        with cf.ThreadPoolExecutor(max_workers=8) as ex:
            for p, rc, bad in ex.map(one, props):
                if rc != 0:
                    alarms += 1
                    print(f"ALARM {p} exit={rc}: " + "; ".join(bad[:5]))
        print(("QUIET" if alarms == 0 else f"ALARMS={alarms}") + f" {os.path.basename(os.path.dirname(os.path.dirname(diff)))}/{os.path.basename(diff)} ({len(props)} properties)")
        return 1 if alarms else 0
    finally:
        shutil.rmtree(tmp, ignore_errors=True)

sys.exit(main())
