#!/bin/bash
# tools/seedcheck.sh <seed dir> <name> <property> [demo package dir relative to repo]
# 1. confirms the seeded change in a scratch worktree (tests pass, demo fails with / passes without the change)
# 2. stores it under /verif/seeded/<name>/
# 3. applies it to /repo, runs the property's quick check, undoes it
set -u
export GOFLAGS=-mod=mod GOPROXY=off GOSUMDB=off GOTOOLCHAIN=local
SRC="$1"; NAME="$2"; PROP="$3"; PKG="${4:-.}"
W=/tmp/sc_$NAME
if [ -n "$(git -C /repo status --porcelain)" ]; then echo "/repo has uncommitted changes: commit them first (this script ends with git checkout -- .)"; exit 2; fi
rm -rf "$W"; git -C /repo worktree add -q --detach "$W" HEAD || exit 2
DEMO=$(ls "$SRC"/$PKG/seed_demo_test.go)
cp "$DEMO" "$W/$PKG/seed_demo_test.go"
echo "== demo without the change (must pass)"
(cd "$W/$PKG" && go test -vet=off -count=1 -timeout 120s -run '^TestSeedDemo$' . 2>&1 | tail -3); R0=${PIPESTATUS[0]}
(cd "$W" && git apply "$SRC/patch.diff") || { echo "patch does not apply"; git -C /repo worktree remove --force "$W"; exit 2; }
echo "== existing tests with the change (must pass)"
mv "$W/$PKG/seed_demo_test.go" /tmp/sc_demo_$NAME.go
(cd "$W" && go build ./... && go test -vet=off -count=1 ./... 2>&1 | grep -v "no test files" | tail -4)
mv /tmp/sc_demo_$NAME.go "$W/$PKG/seed_demo_test.go"
echo "== demo with the change (must fail)"
(cd "$W/$PKG" && go test -vet=off -count=1 -timeout 120s -run '^TestSeedDemo$' . 2>&1 | tail -4)
git -C /repo worktree remove --force "$W"
mkdir -p /verif/seeded/$NAME
cp "$SRC/patch.diff" /verif/seeded/$NAME/patch.diff
cp "$DEMO" /verif/seeded/$NAME/seed_demo_test.go.txt
cp "$SRC/meta.txt" /verif/seeded/$NAME/meta.txt 2>/dev/null
echo "== /verif check $PROP against the change"
git -C /repo apply "$SRC/patch.diff" || exit 2
(cd /verif && ./check $PROP --tier quick > /tmp/sc_out_$NAME.txt 2>&1; echo "exit=$?" >> /tmp/sc_out_$NAME.txt)
git -C /repo checkout -- .
git -C /verif checkout -- evidence 2>/dev/null   # the run against the changed tree rewrote the evidence files: restore the committed ones
grep -E "^  failed|^  undischarged|^  missing|^property=|^exit=" /tmp/sc_out_$NAME.txt | cut -c1-220
