#!/usr/bin/env python3
"""Regenerates /verif/MANIFEST.json from the table below (claimed checks) and properties.jsonl (everything else -> not_applicable)."""
import json, os, subprocess
V = os.path.dirname(os.path.dirname(os.path.abspath(__file__)))
ENV = "GOFLAGS=-mod=mod GOPROXY=off GOSUMDB=off GOTOOLCHAIN=local"
TECH = "contract-based deductive verification: VCs generated from the Go AST (govc), discharged by z3/cvc5"
COMMON = ("Trusted: govc's translation, the SMT solvers, go/types. int/int64 are mathematical integers (uint64 wrap-around is modelled), "
          "slices are value sequences (no aliasing of backing arrays), abstract callees (interfaces, function values) return anything but do not touch the library's state. ")
CLAIMS = {
 "C12": dict(
  text="Function contracts on the real code of mergeDefaults, nextInterval, growInterval, backoffController.reset and backoffController.next, taken from the property statement (retry limit incl. negative/zero, jitter window, growth with cap, elapsed-time limit, reset, defaults incl. Jitter -1), discharged for all configurations and all counter/interval values.",
  note=COMMON + "float64 is modelled as real numbers (rounding ignored); time.Since >= 0 and rand.Float64 in [0,1) assumed; DefaultClient assumed to hold its initial values. Not under contract: the Connect loop wiring (OnRetry called once with next()'s wait; reset after a successful connection / server retry field) - it uses select, timers and closures.",
  ref="DESIGN.md section 6, C12"),
 "C02": dict(
  text="Encoder side, proved on the real code for all messages and all writers: the ghost trace of Write calls made by Message.WriteTo is exactly [\"id: \", ID, \"\\n\"]? [\"event: \", Type, \"\\n\"]? [\"retry: \", digits, \"\\n\"]? then per chunk [\": \"|\"data: \", content, \"\\n\"] and one final \"\\n\" iff anything was written (offsets computed from the flags; chunk.WriteTo, writeMessageField, writeRetry with a 13-byte buffer that never over/underflows, digits only, no leading zero); appendText splits every argument with NextChunk, appends only CR/LF-free chunks with the requested flag and leaves earlier chunks untouched (loop invariants; each iteration consumes exactly one line by NextChunk's contract); ID/Type values are single-line (C14). Decoder side, as ghost lemma functions over the real NextChunk/scanSegment contracts: for every CR/LF-free payload x and any rest, prefix+x+\"\\n\"+rest is split into exactly (prefix+x, rest) and \"data: \"+x / \"event: \"+x / \"id: \"+x / \"retry: \"+x / \": \"+x / \"\" decode to exactly (data,x) / (event,x) / (id,x) / (retry,x) / comment / dispatch marker - so no payload can end the event early, alter a field or reach into the next message.",
  note=COMMON + "Not machine-checked: the induction from the per-line lemmas to whole concatenations of lines/messages (the loop-invariant rule applied by hand, DESIGN.md section 6 C02) and that the retry digits denote Retry in milliseconds (only digits-only, non-empty, <= 13 bytes, no leading zero are proved). bytes.Buffer/strings.Builder (MarshalText/String) are assumed to append every write and never fail.",
  ref="DESIGN.md section 6, C02"),
 "C15": dict(
  text="Byte accounting proved for chunk.WriteTo, writeMessageField, writeRetry and Message.WriteTo against a ghost cumulative count of the bytes accepted by every Write call: the returned count equals the bytes accepted, no Write follows a failed one, the returned error is the last Write's error, the calls made are a prefix (same offsets, same arguments) of the full encoding trace of C02, and a message with nothing to write makes no call and returns (0, nil); io.Writer may fail or short-write at any call (abstract callee with the io.Writer contract). Round trip: FieldParser.Next returns only valid, CR/LF-free fields and consumes whole lines (loop invariant: rest is a suffix at a line start), Message.UnmarshalText keeps ID/Type/chunks well formed, and the per-line decoder lemmas of C02 show each written line yields the field it was written from.",
  note=COMMON + "Not machine-checked: the composition UnmarshalText(MarshalText(m)) == m from the per-line lemmas (hand induction over lines, DESIGN.md section 6 C15); MarshalText/String producing the same bytes as WriteTo rests on the assumed append-only behaviour of bytes.Buffer/strings.Builder.",
  ref="DESIGN.md section 6, C15"),
 "C08": dict(
  text="Representation invariant of FiniteReplayer (well-formed ring, >= 2 slots, stored messages have IDs and topics, consecutive decimal IDs in auto mode) established by NewFiniteReplayer and preserved by Put; per-operation postconditions over the whole abstract view (FIFO of the last N accepted events; rejected messages not stored; IDs start at 0 and are consecutive); findIDInQueue returns the slot after the first event carrying the presented ID and -1 for newest / unknown / unset / never-issued IDs; Replay's Send/Flush call trace on the subscriber's writer is exactly the later matching events in Put order, stops at the first failing Send and flushes once at the end. Holds for every history by induction over operations (the invariant), for every capacity, ID mode, presented ID, topic sets and failing Send position.",
  note=COMMON + "The ID counter is assumed not to reach 2^64-1. The MessageWriter is an abstract callee recorded in a ghost call trace. strconv.FormatUint/ParseUint are uninterpreted with parse(format(n)) = n and digits-only output. With automatic IDs an evicted (older than the buffer) ID is outside the contract, as in the property.",
  ref="DESIGN.md section 6, C08"),
 "C09": dict(
  text="As C08 for ValidReplayer, with expiry: invariant (well-formed ring, dead slots zero, expiries sorted, ttl > 0) established by NewValidReplayer and preserved by Put, GC and doGC; doGC/GC/Put drop only a prefix of events whose expiry is <= the clock reading and keep every other event in order (also across resize, whose precondition newSize > count is proved at both call sites); Put stores expiry = clock reading + ttl; Replay's trace is exactly the later events with expiry > the clock reading taken in this call whose topics intersect, in Put order, then one Flush.",
  note=COMMON + "time.Time is an integer instant. The non-decreasing clock of the property is the assumed contract of the abstract callee Now (its reading plus ttl is >= every stored expiry; never the zero instant). now+ttl is assumed not to overflow.",
  ref="DESIGN.md section 6, C09"),
 "C14": dict(
  text="One contract per construction route, each proved on the real code for all inputs: newMessageField/NewID/NewType (error <=> the value has a CR or LF; error => unset), ID/Type (precondition single-line, otherwise must panics), UnmarshalText, UnmarshalJSON (json.Unmarshal yields any string), Scan (nil, string, []byte, other driver types), Message.UnmarshalText (ID/Type/chunk values come from FieldParser.Next, whose contract gives CR/LF-free values; loop invariant over all fields), Upgrade (Last-Event-Id header absent/empty/invalid => unset, else set to it). 'Set => single line' is the postcondition of every route; the single-line predicate is the spec function over bytes proved equal to isSingleLine via NewlineIndex's loop invariant.",
  note=COMMON + "json.Unmarshal and database/sql driver values are modelled as arbitrary strings / dynamic types; EventID/EventType values can only be built in-package (unexported fields), which is what makes the per-route argument complete; MarshalText/MarshalJSON/Value only read.",
  ref="DESIGN.md section 6, C14"),
 "C16": dict(
  text="The response writer, the provider and OnSession are abstract callees recorded in one ghost call trace; any call may fail. Proved on the real code for every call sequence by per-call contracts over the Session state (didUpgrade): doUpgrade sets Content-Type text/event-stream on the header map returned by Header() and flushes exactly once, reports the flush error and marks the session upgraded only on success; Send upgrades first (a failed upgrade writes nothing and returns the flush error), then makes exactly the Write calls of Message.WriteTo (C02 trace), returns the first failing write's error and never writes after it; Flush flushes exactly once (the upgrade's flush counts as that flush). getResponseWriter follows the Unwrap chain to the first writer with FlushError or Flush (FlushError preferred), nil iff the chain ends without one; Upgrade derives LastEventID from the header (C14). ServeHTTP: at most one Subscribe, with the header's Last-Event-ID and OnSession's topics (DefaultTopic slice when none/empty), nothing after a rejecting OnSession, a final http.Error 500 on w exactly when the writer cannot flush or Subscribe returns an error.",
  note=COMMON + "http.Error is recorded as one trace event (what net/http writes for it is not modelled); slog calls and Logger()/Context()/Error() are not recorded in the trace; sync.Once in Server.init is an assumed contract (provider chosen once); headerContentTypeValue and defaultTopicSlice are assumed to hold their initial values. 'The body is the concatenation of the encodings over a sequence of Sends' is the per-call statement applied call by call (the trace is append-only).",
  ref="DESIGN.md section 6, C16"),
 "C18": dict(
  text="Structural retention bound: FiniteReplayer never changes len(buf) (N slots) and Put's frame shows nothing else is stored; for ValidReplayer every slot outside the live window holds the zero value after every operation (enqueue below capacity, dequeue zeroes the vacated slot, resize copies only the live window into a fresh buffer) and after a collection no live slot holds an event with expiry <= the clock reading - so an evicted or collected message is referenced by no slot.",
  note=COMMON + "That Go's garbage collector frees what is unreferenced, and that no reference to a replaced backing array survives, is outside the contracts (value-sequence model of slices).",
  ref="DESIGN.md section 6, C18"),
}
NA = {
 "C05": "end-to-end property over real HTTP transports, connection cuts and schedules: no function contract can state 'the transport is cut here' (DESIGN.md section 6, C05)",
 "C07": "termination/deadlock-freedom under all interleavings is a liveness property over schedules; the VC generator proves partial correctness only (DESIGN.md section 6, C07)",
}
DEFAULT_NA = "not claimed yet: the contracts/engine features this property needs are not finished (DESIGN.md section 8)"

def main():
    props = [json.loads(l) for l in open(os.path.join(V, "properties.jsonl"))]
    old = json.load(open(os.path.join(V, "MANIFEST.json")))
    commits = subprocess.run(["git", "-C", "/repo", "log", "--format=%h %s"], capture_output=True, text=True).stdout.splitlines()
    hooks = [c.split()[0] for c in commits if c.split(" ", 1)[1].startswith("verif:")]
    checks = []
    for pid in sorted(CLAIMS):
        c = CLAIMS[pid]
        checks.append({"property_id": pid, "quick_cmd": f"./check {pid} --tier quick", "thorough_cmd": f"./check {pid} --tier thorough",
                       "evidence_file": f"evidence/{pid}.json", "replay_cmd_template": f"./check {pid} --replay {{path}}", "engine": "govc",
                       "level_claimed": {"category": "proof", "text": c["text"], "design_ref": c["ref"]}, "level_note": c["note"], "technique": TECH})
    na = [{"property_id": p["id"], "reason": NA.get(p["id"], DEFAULT_NA)} for p in props if p["id"] not in CLAIMS]
    m = {"version": 1, "setup_cmd": f"cd /verif/govc && {ENV} go build -o /verif/bin/govc .",
         "hooks": {"guard": "verif", "enable": "go build -tags verif ./... (the tagged files hold //@ contract comments only; govc reads them)",
                   "baseline_off_cmd": f"cd /repo && {ENV} go test -vet=off -count=1 ./...", "source_commits": list(reversed(hooks)), "add_only": True},
         "engines": [{"name": "govc", "path": "/verif/govc", "serves_properties": sorted(CLAIMS),
                      "kind_free_text": "home-made verification-condition generator for Go (go/packages + go/ast + go/types): forward symbolic execution of the real functions, loops cut at invariants, calls replaced by callee contracts, ghost call traces for abstract callees, one SMT-LIB query per named obligation and path, discharged by z3 4.8.12 / z3 5.1.0 / cvc5 1.0"}],
         "checks": checks, "not_applicable": na,
         "notes": "See DESIGN.md. Known findings and fixed defects: known_findings.json. Property -> obligation mapping: properties.map. Contracts: /repo/verif_contracts.go, /repo/internal/parser/verif_contracts.go (build tag verif, comments only)."}
    json.dump(m, open(os.path.join(V, "MANIFEST.json"), "w"), indent=1)
    print("claimed:", sorted(CLAIMS), "hooks:", m["hooks"]["source_commits"])

main()
