#!/usr/bin/env python3
"""tools/closemap.py: closes properties.map under static calls and function-value mentions - if a property lists F/* and F
calls or hands on G (a library function with a contract), G/* is added. A change inside a callee is then checked whichever property it is attributed to.
Interface calls (Joe -> Replayer) are not static edges; those properties list the implementations explicitly."""
import os, re, subprocess, sys
V = os.path.dirname(os.path.dirname(os.path.abspath(__file__)))
out = subprocess.run([os.path.join(V, "bin/govc"), "-repo", "/repo", "-verif", V, "-calls"], capture_output=True, text=True).stdout
edges = {}
for l in out.splitlines():
    p = l.split()
    if len(p) == 2 and "." in p[0]:
        edges.setdefault(p[0], set()).add(p[1])
have = set()
for f in ("/repo/verif_contracts.go", "/repo/internal/parser/verif_contracts.go"):
    pkg = "parser" if "internal/parser" in f else "sse"
    cur = None
    for l in open(f):
        m = re.match(r"//@ func (\S+)", l)
        if m and not m.group(1).startswith("@"):
            cur = pkg + "." + m.group(1)
            have.add(cur)
        elif re.match(r"//@\s+trusted\b", l) and cur:
            have.discard(cur)  # a trusted function is not verified: its once-function (init$1) is listed instead
lines = open(os.path.join(V, "properties.map")).read().split("\n")
for i, l in enumerate(lines):
    if not re.match(r"C\d\d:", l):
        continue
    pid, rest = l.split(":", 1)
    pats = [x.strip() for x in rest.split(",") if x.strip()]
    whole = [p[:-2] for p in pats if p.endswith("/*")]
    seen = set(whole)
    work = list(whole)
    added = []
    while work:
        f = work.pop()
        # a function literal's calls are recorded under the function that contains it; a function without a contract
        # (inlined at its call sites, like read) is walked through but not listed
        callees = set(edges.get(f, ())) | (set(edges.get(f.split("$")[0], ())) if "$" in f else set())
        for g in sorted(callees):
            if g in seen or "lemma" in g:
                continue
            seen.add(g); work.append(g)
            if g in have:
                added.append(g)
    for g in added:
        pats.append(g + "/*")
    lines[i] = pid + ": " + ", ".join(pats)
    if added:
        print(pid, "+", " ".join(added))
open(os.path.join(V, "properties.map"), "w").write("\n".join(lines))
