package sse_test

// Bounded stand-in for the composition step of C01 that contracts cannot reach (bufio.Scanner between splitFunc and
// the field parser): sse.Read on the real code against a reference interpreter of the WHATWG algorithm with go-sse's
// documented adaptations, exhaustively for every stream of at most VERIF_BOUND tokens over a fixed token alphabet,
// each read whole and one byte at a time. Labelled bounded; never counted as proved.

import (
	"encoding/json"
	"errors"
	"fmt"
	"io"
	"os"
	"strconv"
	"strings"
	"testing"
	"testing/iotest"

	"github.com/tmaxmax/go-sse"
)

var c01Alphabet = []string{"data", "id", "event", "retry", ":", " ", "\n", "\r", "x", "7", "\x00", "\xEF\xBB\xBF"}

type c01Event struct{ ID, Type, Data string }

// reference interpreter: returns the events and whether the stream ended in the middle of a line
func c01Reference(s string) (evs []c01Event, unexpectedEOF bool) {
	s = strings.TrimPrefix(s, "\xEF\xBB\xBF")
	var lastID, typ, data string
	dirty := false
	dispatch := func() {
		if dirty {
			evs = append(evs, c01Event{lastID, typ, strings.TrimSuffix(data, "\n")})
		}
		data, typ, dirty = "", "", false
	}
	for len(s) > 0 {
		i := strings.IndexAny(s, "\r\n")
		if i < 0 {
			return evs, true // unterminated last line: pending event discarded
		}
		line := s[:i]
		if s[i] == '\r' && i+1 < len(s) && s[i+1] == '\n' {
			i++
		}
		s = s[i+1:]
		if line == "" {
			dispatch()
			continue
		}
		if line[0] == ':' {
			continue
		}
		name, value := line, ""
		if c := strings.IndexByte(line, ':'); c >= 0 {
			name, value = line[:c], strings.TrimPrefix(line[c+1:], " ")
		}
		switch name {
		case "data":
			data += value + "\n"
			dirty = true
		case "event":
			typ = value
			dirty = true
		case "id":
			if !strings.Contains(value, "\x00") {
				lastID = value
				dirty = true
			}
		}
		// retry: Read has no reconnection time to set, the field is ignored like an unknown one
	}
	dispatch() // clean end: a pending event whose last line was terminated is dispatched
	return evs, false
}

// a reader that hands out fixed chunks and returns io.EOF together with the last one
type c01ChunkReader struct{ chunks []string }

func (r *c01ChunkReader) Read(p []byte) (int, error) {
	for len(r.chunks) > 0 && r.chunks[0] == "" {
		r.chunks = r.chunks[1:]
	}
	if len(r.chunks) == 0 {
		return 0, io.EOF
	}
	n := copy(p, r.chunks[0])
	if n < len(r.chunks[0]) {
		r.chunks[0] = r.chunks[0][n:]
		return n, nil
	}
	r.chunks = r.chunks[1:]
	if len(r.chunks) == 0 {
		return n, io.EOF
	}
	return n, nil
}

// c01Readers: the ways a stream is handed to the parser - whole, one byte at a time, both again with io.EOF
// arriving together with the last bytes, and cut after each of its first three CRs with data and EOF together.
func c01Readers(s string) (names []string, mk []func() io.Reader) {
	add := func(n string, f func() io.Reader) { names = append(names, n); mk = append(mk, f) }
	add("whole", func() io.Reader { return strings.NewReader(s) })
	add("one-byte", func() io.Reader { return iotest.OneByteReader(strings.NewReader(s)) })
	add("whole+eof", func() io.Reader { return &c01ChunkReader{chunks: []string{s}} })
	add("one-byte+eof", func() io.Reader { return iotest.DataErrReader(iotest.OneByteReader(strings.NewReader(s))) })
	cuts := 0
	for i := 0; i < len(s) && cuts < 3; i++ {
		if s[i] == '\r' && i+1 < len(s) {
			i := i
			cuts++
			add(fmt.Sprintf("cut-after-cr@%d+eof", i), func() io.Reader { return &c01ChunkReader{chunks: []string{s[:i+1], s[i+1:]}} })
		}
	}
	return
}

func c01Run(r io.Reader) (evs []c01Event, err error) {
	sse.Read(r, nil)(func(e sse.Event, er error) bool {
		if er != nil {
			err = er
			return false
		}
		evs = append(evs, c01Event{e.LastEventID, e.Type, e.Data})
		return true
	})
	return
}

func TestVerifBounded_C01(t *testing.T) {
	bound, _ := strconv.Atoi(os.Getenv("VERIF_BOUND"))
	if bound <= 0 {
		bound = 5
	}
	total, nontrivial, fails := 0, 0, 0
	var samples []string
	seenShape := map[string]bool{}
	var rec func(prefix string, depth int)
	check := func(s string) {
		want, ueof := c01Reference(s)
		names, readers := c01Readers(s)
		for mode := range readers {
			got, err := c01Run(readers[mode]())
			total++
			ok := fmt.Sprint(got) == fmt.Sprint(want)
			if ueof {
				ok = ok && errors.Is(err, sse.ErrUnexpectedEOF)
			} else {
				ok = ok && err == nil
			}
			if !ok {
				fails++
				if fails <= 20 {
					fmt.Printf("BOUNDED-FAIL %s\n", mustJSON(map[string]any{"input": s, "reader": names[mode], "got": got, "got_err": fmt.Sprint(err), "want": want, "want_unexpected_eof": ueof}))
				}
			}
		}
		if len(want) > 0 {
			shape := fmt.Sprintf("%d/%v", len(want), ueof)
			nontrivial++
			if !seenShape[shape] && len(samples) < 6 {
				seenShape[shape] = true
				samples = append(samples, s)
			}
		}
	}
	rec = func(prefix string, depth int) {
		check(prefix)
		if depth == bound {
			return
		}
		for _, a := range c01Alphabet {
			rec(prefix+a, depth+1)
		}
	}
	if single := os.Getenv("VERIF_SINGLE"); single != "" {
		var in string
		if err := json.Unmarshal([]byte(single), &in); err != nil {
			t.Fatalf("VERIF_SINGLE: %v", err)
		}
		check(in)
	} else {
		rec("", 0)
	}
	fmt.Printf("BOUNDED-STATS %s\n", mustJSON(map[string]any{"bound_tokens": bound, "alphabet": c01Alphabet, "evaluations": total, "distinct_nontrivial": nontrivial,
		"rule": "every concatenation of at most bound_tokens tokens of the alphabet, read whole, one byte at a time, each also with io.EOF delivered together with the last bytes, and cut after each of the first three CRs; non-trivial = the reference interpreter dispatches at least one event", "failures": fails, "samples": samples, "exhaustive": true}))
	if fails > 0 {
		t.Fatalf("%d of %d executions disagree with the reference interpreter", fails, total)
	}
}

func mustJSON(v any) string {
	b, err := json.Marshal(v)
	if err != nil {
		return fmt.Sprintf("%q", fmt.Sprint(v))
	}
	return string(b)
}
