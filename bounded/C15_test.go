package sse_test

// Bounded stand-in for the hand-composed steps of C15 and C02 (per-line lemmas => whole messages and sequences of
// messages; MarshalText/String over bytes.Buffer/strings.Builder): exhaustive over every message built by at most
// VERIF_BOUND public-API operations drawn from fixed pools. Labelled bounded; never counted as proved.

import (
	"bytes"
	"encoding/json"
	"errors"
	"fmt"
	"os"
	"strconv"
	"strings"
	"testing"
	"time"

	"github.com/tmaxmax/go-sse"
)

var c15Strings = []string{"x", "", "a\nb", "a\rb", "a\r\nb", "\n", "\r", " lead", "id: 9", ":c", "data: y", "t\n", "\xEF\xBB\xBFz", "a\x00b", "\r\n\r\n"}
var c15IDs = []string{"", "1", "i d"}
var c15Types = []string{"t", "ty pe"}
var c15Retries = []time.Duration{5 * time.Millisecond, 1500 * time.Microsecond, -1, time.Hour, 999 * time.Microsecond}

type c15Op struct {
	kind string // data, comment, id, type, retry
	s    string
	d    time.Duration
	idx  int // position in c15Ops(), for replaying a single case
}

func c15Indices(seq []c15Op) []int {
	out := []int{}
	for _, o := range seq {
		out = append(out, o.idx)
	}
	return out
}

// c15Single decodes VERIF_SINGLE (a JSON list of messages, each a list of operation indices)
func c15Single(t *testing.T, ops []c15Op) [][]c15Op {
	single := os.Getenv("VERIF_SINGLE")
	if single == "" {
		return nil
	}
	var idx [][]int
	if err := json.Unmarshal([]byte(single), &idx); err != nil {
		t.Fatalf("VERIF_SINGLE: %v", err)
	}
	var out [][]c15Op
	for _, m := range idx {
		seq := []c15Op{}
		for _, i := range m {
			seq = append(seq, ops[i])
		}
		out = append(out, seq)
	}
	return out
}

func c15Ops() []c15Op {
	var ops []c15Op
	for _, s := range c15Strings {
		ops = append(ops, c15Op{kind: "data", s: s}, c15Op{kind: "comment", s: s})
	}
	for _, s := range c15IDs {
		ops = append(ops, c15Op{kind: "id", s: s})
	}
	for _, s := range c15Types {
		ops = append(ops, c15Op{kind: "type", s: s})
	}
	for _, d := range c15Retries {
		ops = append(ops, c15Op{kind: "retry", d: d})
	}
	for i := range ops {
		ops[i].idx = i
	}
	return ops
}

func c15Build(seq []c15Op) *sse.Message {
	m := &sse.Message{}
	for _, o := range seq {
		switch o.kind {
		case "data":
			m.AppendData(o.s)
		case "comment":
			m.AppendComment(o.s)
		case "id":
			m.ID = sse.ID(o.s)
		case "type":
			m.Type = sse.Type(o.s)
		case "retry":
			m.Retry = o.d
		}
	}
	return m
}

// lines of an appended string: every CR, LF or CRLF is one line break; a final break adds no empty line
func c15Lines(s string) []string {
	var out []string
	for s != "" {
		i := strings.IndexAny(s, "\r\n")
		if i < 0 {
			out = append(out, s)
			break
		}
		out = append(out, s[:i])
		if s[i] == '\r' && i+1 < len(s) && s[i+1] == '\n' {
			i++
		}
		s = s[i+1:]
	}
	return out
}

// what a reader must see for a message built from seq, given the last event ID before it
func c15Expected(seq []c15Op, lastID string) (ev *c01Event, newLastID string) {
	var data []string
	hasData, idSet, typ, typSet := false, false, "", false
	for _, o := range seq {
		switch o.kind {
		case "data":
			ls := c15Lines(o.s)
			if len(ls) > 0 {
				hasData = true
			}
			data = append(data, ls...)
		case "id":
			lastID, idSet = o.s, true
		case "type":
			typ, typSet = o.s, true
		}
	}
	if !hasData && !idSet && !typSet {
		return nil, lastID
	}
	return &c01Event{lastID, typ, strings.Join(data, "\n")}, lastID
}

type c15Budget struct {
	buf    bytes.Buffer
	budget int
}

var errC15Budget = errors.New("budget exhausted")

func (w *c15Budget) Write(p []byte) (int, error) {
	if len(p) <= w.budget {
		w.budget -= len(p)
		return w.buf.Write(p)
	}
	n := w.budget
	w.buf.Write(p[:n])
	w.budget = 0
	return n, errC15Budget
}

func TestVerifBounded_C15(t *testing.T) {
	bound, _ := strconv.Atoi(os.Getenv("VERIF_BOUND"))
	if bound <= 0 {
		bound = 2
	}
	ops := c15Ops()
	total, nontrivial, fails := 0, 0, 0
	var samples []string
	fail := func(what string, seq []c15Op, detail string) {
		fails++
		if fails <= 20 {
			fmt.Printf("BOUNDED-FAIL %s\n", mustJSON(map[string]any{"check": what, "single": [][]int{c15Indices(seq)}, "ops": fmt.Sprintf("%+v", seq), "detail": detail}))
		}
	}
	var msgs [][]c15Op
	var rec func(seq []c15Op)
	rec = func(seq []c15Op) {
		msgs = append(msgs, append([]c15Op(nil), seq...))
		if len(seq) == bound {
			return
		}
		for _, o := range ops {
			rec(append(seq, o))
		}
	}
	rec(nil)
	if one := c15Single(t, ops); one != nil {
		msgs = one
	}
	for _, seq := range msgs {
		m := c15Build(seq)
		text, err := m.MarshalText()
		total++
		if err != nil {
			fail("MarshalText error", seq, err.Error())
			continue
		}
		if s := m.String(); s != string(text) {
			fail("String differs from MarshalText", seq, fmt.Sprintf("%q vs %q", s, text))
		}
		var b bytes.Buffer
		if n, err := m.WriteTo(&b); err != nil || n != int64(len(text)) || !bytes.Equal(b.Bytes(), text) {
			fail("WriteTo differs from MarshalText", seq, fmt.Sprintf("n=%d err=%v %q vs %q", n, err, b.Bytes(), text))
		}
		// a writer that stops accepting bytes at any point
		for budget := 0; budget < len(text); budget++ {
			w := &c15Budget{budget: budget}
			n, err := m.WriteTo(w)
			total++
			if err != errC15Budget || n != int64(budget) || !bytes.Equal(w.buf.Bytes(), text[:budget]) {
				fail("short write accounting", seq, fmt.Sprintf("budget=%d n=%d err=%v wrote %q", budget, n, err, w.buf.Bytes()))
				break
			}
		}
		if len(text) == 0 {
			continue
		}
		nontrivial++
		if len(samples) < 5 && len(seq) == bound && nontrivial%97 == 0 {
			samples = append(samples, string(text))
		}
		hasNUL := false
		for _, o := range seq {
			if o.kind == "id" && strings.Contains(o.s, "\x00") {
				hasNUL = true
			}
		}
		if hasNUL {
			continue
		}
		var m2 sse.Message
		if err := m2.UnmarshalText(text); err != nil {
			fail("UnmarshalText(MarshalText(m)) fails", seq, fmt.Sprintf("%q: %v", text, err))
			continue
		}
		text2, _ := m2.MarshalText()
		if !bytes.Equal(text2, text) || m2.ID != m.ID || m2.Type != m.Type || m2.Retry/time.Millisecond != maxDur(m.Retry, 0)/time.Millisecond {
			fail("round trip differs", seq, fmt.Sprintf("%q -> %q id %v/%v type %v/%v retry %v/%v", text, text2, m.ID, m2.ID, m.Type, m2.Type, m.Retry, m2.Retry))
		}
	}
	fmt.Printf("BOUNDED-STATS %s\n", mustJSON(map[string]any{"bound_ops": bound, "operations": len(ops), "evaluations": total, "distinct_nontrivial": nontrivial,
		"rule": "every message built by at most bound_ops operations (AppendData/AppendComment over a pool of strings with CR, LF, CRLF, colons, spaces, field look-alikes, BOM, NUL; ID; Type; Retry incl. negative and sub-millisecond), every short-write budget below the encoding's length; non-trivial = non-empty encoding", "failures": fails, "samples": samples, "exhaustive": true}))
	if fails > 0 {
		t.Fatalf("%d failures", fails)
	}
}

func maxDur(a, b time.Duration) time.Duration {
	if a > b {
		return a
	}
	return b
}

func TestVerifBounded_C02(t *testing.T) {
	bound, _ := strconv.Atoi(os.Getenv("VERIF_BOUND"))
	if bound <= 0 {
		bound = 2
	}
	ops := c15Ops()
	var msgs [][]c15Op
	var rec func(seq []c15Op)
	rec = func(seq []c15Op) {
		msgs = append(msgs, append([]c15Op(nil), seq...))
		if len(seq) == bound {
			return
		}
		for _, o := range ops {
			rec(append(seq, o))
		}
	}
	rec(nil)
	texts := make([]string, len(msgs))
	for i, seq := range msgs {
		texts[i] = c15Build(seq).String()
	}
	total, nontrivial, fails := 0, 0, 0
	var samples []string
	// every message alone, and every ordered pair of a message of at most 2 operations and one of at most 1
	check := func(idx []int) {
		var stream strings.Builder
		var want []c01Event
		lastID := ""
		for _, i := range idx {
			stream.WriteString(texts[i])
			var ev *c01Event
			ev, lastID = c15Expected(msgs[i], lastID)
			if ev != nil {
				want = append(want, *ev)
			}
		}
		total++
		got, err := c01Run(strings.NewReader(stream.String()))
		ref, ueof := c01Reference(stream.String())
		if err != nil || ueof || fmt.Sprint(got) != fmt.Sprint(want) || fmt.Sprint(ref) != fmt.Sprint(want) {
			fails++
			if fails <= 20 {
				fmt.Printf("BOUNDED-FAIL %s\n", mustJSON(map[string]any{"check": "wire form decodes to what was appended", "single": func() [][]int {
					o := [][]int{}
					for _, i := range idx {
						o = append(o, c15Indices(msgs[i]))
					}
					return o
				}(), "stream": stream.String(), "got": got, "reference": ref, "want": want, "err": fmt.Sprint(err)}))
			}
		}
		if len(want) > 0 {
			nontrivial++
			if len(samples) < 5 && nontrivial%9973 == 0 {
				samples = append(samples, stream.String())
			}
		}
	}
	if one := c15Single(t, ops); one != nil {
		msgs = one
		texts = texts[:0]
		var all []int
		for i, seq := range msgs {
			texts = append(texts, c15Build(seq).String())
			all = append(all, i)
		}
		check(all)
		msgs = nil
	}
	for i := range msgs {
		check([]int{i})
	}
	for i := range msgs {
		if len(msgs[i]) > 2 {
			continue
		}
		for j := range msgs {
			if len(msgs[j]) <= 1 {
				check([]int{i, j})
			}
		}
	}
	fmt.Printf("BOUNDED-STATS %s\n", mustJSON(map[string]any{"bound_ops": bound, "operations": len(ops), "evaluations": total, "distinct_nontrivial": nontrivial,
		"rule": "every message of at most bound_ops operations alone, and every ordered pair (first: at most 2 operations, second: at most 1 operation), encoded, concatenated and decoded by sse.Read and by the reference interpreter; non-trivial = at least one event expected", "failures": fails, "samples": samples, "exhaustive": true}))
	if fails > 0 {
		t.Fatalf("%d failures", fails)
	}
}
