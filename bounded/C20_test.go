package sse_test

// Bounded stand-in for the part of C20 that lives in bufio.Scanner (assumed by the contracts): sse.Read on the real
// code with a small MaxEventSize, exhaustively for every stream of at most VERIF_BOUND tokens over a fixed alphabet,
// read whole and one byte at a time, with the bytes pulled from the reader counted. Labelled bounded; never proved.

import (
	"bufio"
	"encoding/json"
	"errors"
	"fmt"
	"io"
	"os"
	"strconv"
	"strings"
	"testing"

	"github.com/tmaxmax/go-sse"
)

var c20Alphabet = []string{"data:x\n", "\n", ":c\n", "xxxxx", "\r\n", "id\n", "\r"}

const c20Max = 12

type c20Counter struct {
	r io.Reader
	n int
}

func (c *c20Counter) Read(p []byte) (int, error) {
	n, err := c.r.Read(p)
	c.n += n
	return n, err
}

// blocks of the stream as the scanner must cut it: leading blank lines belong to the block that follows, a block ends
// after the blank line that follows a non-blank line; the rest is a final partial block. Returns the end offsets.
func c20Blocks(s string) (ends []int) {
	pos, nonBlank := 0, false
	for pos < len(s) {
		i := strings.IndexAny(s[pos:], "\r\n")
		if i < 0 {
			break
		}
		lineLen := i
		end := pos + i + 1
		if s[pos+i] == '\r' && end < len(s) && s[end] == '\n' {
			end++
		}
		pos = end
		if lineLen > 0 {
			nonBlank = true
		} else if nonBlank {
			ends = append(ends, pos)
			nonBlank = false
		}
	}
	if len(ends) == 0 || ends[len(ends)-1] < len(s) {
		if len(s) > 0 {
			ends = append(ends, len(s))
		}
	}
	return ends
}

func TestVerifBounded_C20(t *testing.T) {
	bound, _ := strconv.Atoi(os.Getenv("VERIF_BOUND"))
	if bound <= 0 {
		bound = 6
	}
	total, nontrivial, fails, known := 0, 0, 0, 0
	var samples []string
	check := func(s string) {
		ends := c20Blocks(s)
		maxBlock, firstBig, prev := 0, -1, 0
		for k, e := range ends {
			if e-prev > maxBlock {
				maxBlock = e - prev
			}
			if firstBig < 0 && e-prev >= c20Max+2 {
				firstBig = k
			}
			prev = e
		}
		want, ueof := c01Reference(s)
		names, readers := c01Readers(s)
		for mode := range readers {
			cr := &c20Counter{r: readers[mode]()}
			var got []c01Event
			var err error
			panicked := func() (p any) {
				defer func() { p = recover() }()
				sse.Read(cr, &sse.ReadConfig{MaxEventSize: c20Max})(func(e sse.Event, er error) bool {
					if er != nil {
						err = er
						return false
					}
					got = append(got, c01Event{e.LastEventID, e.Type, e.Data})
					return true
				})
				return nil
			}()
			total++
			bad := ""
			switch {
			case panicked != nil:
				bad = fmt.Sprintf("panic: %v", panicked)
			case maxBlock < c20Max:
				// every event, with the blank lines before it, is smaller than the limit: delivered completely and intact
				if fmt.Sprint(got) != fmt.Sprint(want) || (ueof && !errors.Is(err, sse.ErrUnexpectedEOF)) || (!ueof && err != nil) {
					bad = "stream below the limit not delivered completely"
				}
			case firstBig >= 0:
				// an oversized block: error, nothing truncated delivered, bounded read
				if !errors.Is(err, bufio.ErrTooLong) {
					bad = "oversized event not reported as ErrTooLong"
				}
				if len(got) > len(want) || fmt.Sprint(got) != fmt.Sprint(want[:len(got)]) {
					bad = "events delivered are not a prefix of the reference events (truncated or partial event)"
				}
				before := 0
				if firstBig > 0 {
					before = ends[firstBig-1]
				}
				if cr.n > before+c20Max+1 {
					bad = fmt.Sprintf("read %d bytes, more than the %d up to the last complete block plus the limit %d", cr.n, before, c20Max)
				}
			default:
				// sizes at the boundary (limit .. limit+1): either outcome, but never a truncated event
				if len(got) > len(want) || fmt.Sprint(got) != fmt.Sprint(want[:len(got)]) {
					bad = "events delivered are not a prefix of the reference events"
				}
			}
			if bad != "" && names[mode] != "whole" && names[mode] != "whole+eof" && errors.Is(err, bufio.ErrTooLong) && len(got) <= len(want) && fmt.Sprint(got) == fmt.Sprint(want[:len(got)]) && c20CutCRLFTooLong(s) {
				// known finding crlf-cut: the reader delivered the CR and the LF of an event-ending CRLF separately; the LF
				// then counts as a blank line of the next block, which reaches the limit one byte early
				known++
				if known <= 3 {
					fmt.Printf("BOUNDED-KNOWN %s\n", mustJSON(map[string]any{"class": "crlf-cut", "input": s, "max_event_size": c20Max, "err": fmt.Sprint(err), "got": got, "want": want}))
				}
				bad = ""
			}
			if bad != "" {
				fails++
				if fails <= 20 {
					fmt.Printf("BOUNDED-FAIL %s\n", mustJSON(map[string]any{"input": s, "reader": names[mode], "max_event_size": c20Max, "problem": bad, "got": got, "err": fmt.Sprint(err), "want": want, "bytes_read": cr.n, "block_ends": ends}))
				}
			}
		}
		if firstBig >= 0 {
			nontrivial++
			if len(samples) < 5 && nontrivial%5000 == 1 {
				samples = append(samples, s)
			}
		}
	}
	var rec func(prefix string, depth int)
	rec = func(prefix string, depth int) {
		check(prefix)
		if depth == bound {
			return
		}
		for _, a := range c20Alphabet {
			rec(prefix+a, depth+1)
		}
	}
	if single := os.Getenv("VERIF_SINGLE"); single != "" {
		var in string
		if err := json.Unmarshal([]byte(single), &in); err != nil {
			t.Fatalf("VERIF_SINGLE: %v", err)
		}
		check(in)
	} else {
		rec("", 0)
	}
	fmt.Printf("BOUNDED-STATS %s\n", mustJSON(map[string]any{"bound_tokens": bound, "alphabet": c20Alphabet, "max_event_size": c20Max, "evaluations": total, "distinct_nontrivial": nontrivial,
		"rule": "every concatenation of at most bound_tokens tokens, MaxEventSize 12, read whole, one byte at a time, each also with io.EOF together with the last bytes, and cut after CRs, with the bytes pulled from the reader counted; non-trivial = some block (event with its preceding blank lines) exceeds the limit", "failures": fails, "known_crlf_cut": known, "samples": samples, "exhaustive": true}))
	if fails > 0 {
		t.Fatalf("%d failures", fails)
	}
}

// c20CutCRLFTooLong: with the LF of an event-ending CRLF counted to the following block (what a reader that delivers
// CR and LF separately makes the scanner see), some block reaches the limit.
func c20CutCRLFTooLong(s string) bool {
	ends := c20Blocks(s)
	prev := 0
	for _, e := range ends {
		start := prev
		if prev >= 2 && s[prev-2] == '\r' && s[prev-1] == '\n' {
			start = prev - 1
		}
		if e-start >= c20Max {
			return true
		}
		prev = e
	}
	return false
}
