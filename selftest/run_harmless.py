#!/usr/bin/env python3
"""Must-pass self-test corpus: property-preserving edits of /repo (renamed locals no contract mentions, reordered
independent statements, equivalent conditions). Each is applied to a scratch copy, must build and pass the test suite,
and the property's check must stay quiet (exit 0). A failure here is a false alarm of the machinery. Not a registered check."""
import json, os, shutil, subprocess, sys, tempfile, concurrent.futures as cf

VERIF = os.path.dirname(os.path.dirname(os.path.abspath(__file__)))
REPO = os.environ.get("REPO", "/repo")

def run_one(m):
    tmp = tempfile.mkdtemp(prefix="govc-harmless-")
    try:
        repo = os.path.join(tmp, "repo"); vdir = os.path.join(tmp, "verif")
        shutil.copytree(REPO, repo, ignore=shutil.ignore_patterns(".git"))
        os.makedirs(vdir)
        for f in ("properties.map", "known_findings.json", "obligations.baseline.json"):
            p = os.path.join(VERIF, f)
            if os.path.exists(p): shutil.copy(p, vdir)
        path = os.path.join(repo, m["file"])
        src = open(path).read()
        if m["old"] not in src:
            return m, "STALE", "pattern not found in " + m["file"]
        open(path, "w").write(src.replace(m["old"], m["new"], 1) + m.get("extra_append", ""))
        env = dict(os.environ, GOFLAGS="-mod=mod", GOPROXY="off", GOSUMDB="off", GOTOOLCHAIN="local")
        b = subprocess.run(["go", "build", "./..."], cwd=repo, env=env, capture_output=True, text=True)
        if b.returncode != 0:
            return m, "NOBUILD", b.stderr[-300:]
        # two tests of the suite are timing-dependent and fail now and then under load: a run failing only in them is repeated
        import re
        for attempt in range(3):
            t = subprocess.run(["go", "test", "-vet=off", "-count=1", "./..."], cwd=repo, env=env, capture_output=True, text=True)
            if t.returncode == 0:
                break
            failing = set(re.findall(r"^--- FAIL: (\w+)", t.stdout, re.M))
            if not failing or not failing <= {"TestJoe_Shutdown", "TestConnection_Unsubscriptions"} or attempt == 2:
                return m, "TESTS-FAIL", t.stdout[-300:]
        r = subprocess.run([os.path.join(VERIF, "bin/govc"), "-repo", repo, "-verif", vdir, "-prop", m["prop"], "-nocache"],
                           capture_output=True, text=True, timeout=900)
        out = r.stdout + r.stderr
        if r.returncode == 0:
            return m, "QUIET", ""
        failed = [l.strip() for l in out.splitlines() if l.strip().startswith(("failed ", "undischarged ", "missing ", "ENGINE-FAULT"))]
        return m, "ALARM", "; ".join(x[:160] for x in failed[:4])
    finally:
        shutil.rmtree(tmp, ignore_errors=True)

def main():
    muts = json.load(open(os.path.join(VERIF, "selftest", "harmless.json")))
    sel = sys.argv[1:]
    if sel:
        muts = [m for m in muts if m["prop"] in sel or m["name"] in sel]
    bad = 0
    with cf.ThreadPoolExecutor(max_workers=3) as ex:
        for m, status, info in ex.map(run_one, muts):
            print(f"{status:10s} {m['prop']} {m['name']}: {info}")
            if status != "QUIET" and not m.get("known_alarm"):
                bad += 1
    print(f"{len(muts)} harmless edits, {bad} not quiet")
    sys.exit(1 if bad else 0)

if __name__ == "__main__":
    main()
