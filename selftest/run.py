#!/usr/bin/env python3
"""Must-fail self-test corpus: applies each mutation to a scratch copy of /repo (outside /repo and /verif),
runs govc on it and checks that a named obligation fails. Regression suite of the engine; not a registered check."""
import json, os, shutil, subprocess, sys, tempfile, concurrent.futures as cf

VERIF = os.path.dirname(os.path.dirname(os.path.abspath(__file__)))
REPO = os.environ.get("REPO", "/repo")

def run_one(m):
    tmp = tempfile.mkdtemp(prefix="govc-mut-")
    try:
        repo = os.path.join(tmp, "repo"); vdir = os.path.join(tmp, "verif")
        shutil.copytree(REPO, repo, ignore=shutil.ignore_patterns(".git"))
        os.makedirs(vdir)
        for f in ("properties.map", "known_findings.json", "obligations.baseline.json"):
            p = os.path.join(VERIF, f)
            if os.path.exists(p): shutil.copy(p, vdir)
        path = os.path.join(repo, m["file"])
        src = open(path).read()
        if m["old"] not in src:
            return m, "STALE", "pattern not found in " + m["file"]
        open(path, "w").write(src.replace(m["old"], m["new"], 1))
        env = dict(os.environ, GOFLAGS="-mod=mod", GOPROXY="off", GOSUMDB="off", GOTOOLCHAIN="local")
        b = subprocess.run(["go", "build", "./..."], cwd=repo, env=env, capture_output=True, text=True)
        if b.returncode != 0:
            return m, "NOBUILD", b.stderr[-300:]
        r = subprocess.run([os.path.join(VERIF, "bin/govc"), "-repo", repo, "-verif", vdir, "-prop", m["prop"], "-nocache"],
                           capture_output=True, text=True, timeout=600)
        out = r.stdout + r.stderr
        failed = [l.strip() for l in out.splitlines() if l.strip().startswith(("failed ", "undischarged ", "missing "))]
        want = m.get("expect", "")
        if r.returncode == 1 and any(want in l for l in failed):
            return m, "CAUGHT", "; ".join(l.split(":")[0] + ":" + l.split(":")[1].split(" ")[0] for l in failed[:4])
        if r.returncode == 1:
            return m, "CAUGHT-OTHER", "; ".join(failed[:4])
        return m, "MISSED", out[-400:]
    finally:
        shutil.rmtree(tmp, ignore_errors=True)

def main():
    muts = json.load(open(os.path.join(VERIF, "selftest", "mutants.json")))
    sel = sys.argv[1:]
    if sel:
        muts = [m for m in muts if m["prop"] in sel or m["name"] in sel]
    bad = 0
    with cf.ThreadPoolExecutor(max_workers=3) as ex:
        for m, status, info in ex.map(run_one, muts):
            print(f"{status:12s} {m['prop']} {m['name']}: {info}")
            if status not in ("CAUGHT",) and not m.get("expect_miss"):
                bad += 1
    print(f"{len(muts)} mutants, {bad} not caught as expected")
    sys.exit(1 if bad else 0)

if __name__ == "__main__":
    main()
