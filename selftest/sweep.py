#!/usr/bin/env python3
"""Mutation sweep of the verification machinery (not a registered check): every mutant listed by bin/mutgen is applied to
a scratch copy of /repo; mutants that do not build or that the existing test suite rejects are set aside; for the rest the
checks of every property whose obligation patterns mention the mutated function are run. A mutant that survives both the
tests and the checks is either equivalent or shows a hole in the contracts - the list of survivors is what this is for.
usage: sweep.py [--workers N] [--only <file substring>] > results.jsonl"""
import json, os, re, shutil, subprocess, sys, tempfile, concurrent.futures as cf

VERIF = os.path.dirname(os.path.dirname(os.path.abspath(__file__)))
REPO = os.environ.get("REPO", "/repo")
ENV = dict(os.environ, GOFLAGS="-mod=mod", GOPROXY="off", GOSUMDB="off", GOTOOLCHAIN="local")

def load_map():
    props = {}
    for line in open(os.path.join(VERIF, "properties.map")):
        line = line.strip()
        if not line or line.startswith("#"): continue
        pid, pats = line.split(":", 1)
        props[pid.strip()] = [p.strip().split("/")[0] for p in pats.split(",")]
    return props

def props_for(props, file, func):
    if func == "(package level)":
        return sorted(props)  # an initialiser may matter to any property: try them all (stops at the first that flags it)
    pkg = "parser" if file.startswith("internal/parser") else "sse"
    key = f"{pkg}.{func}"
    out = []
    for pid, funcs in props.items():
        for f in funcs:
            f0 = f.replace("*", "")
            if f0 == key or f0.startswith(key + "$"):
                out.append(pid); break
    return sorted(set(out))

def run_one(args):
    m, props = args
    tmp = tempfile.mkdtemp(prefix="govc-sweep-")
    res = dict(m)
    try:
        repo = os.path.join(tmp, "repo"); vdir = os.path.join(tmp, "verif")
        shutil.copytree(REPO, repo, ignore=shutil.ignore_patterns(".git"))
        os.makedirs(vdir)
        for f in ("properties.map", "known_findings.json", "obligations.baseline.json"):
            shutil.copy(os.path.join(VERIF, f), vdir)
        path = os.path.join(repo, m["file"])
        src = open(path, "rb").read()
        if src[m["pos"]:m["end"]].decode() != m["old"]:
            res["status"] = "STALE"; return res
        open(path, "wb").write(src[:m["pos"]] + m["new"].encode() + src[m["end"]:])
        b = subprocess.run(["go", "build", "./..."], cwd=repo, env=ENV, capture_output=True, text=True)
        if b.returncode != 0:
            res["status"] = "NOBUILD"; return res
        # two tests of the suite are timing-dependent (TestJoe_Shutdown, TestConnection_Unsubscriptions) and fail now and
        # then under load whatever the code: a run that fails only in those is repeated (up to twice)
        killed = False
        for attempt in range(3):
            try:
                t = subprocess.run(["go", "test", "-vet=off", "-count=1", "-timeout", "60s", "./..."], cwd=repo, env=ENV, capture_output=True, text=True, timeout=200)
            except subprocess.TimeoutExpired:
                killed = True; break
            if t.returncode == 0:
                break
            failing = set(re.findall(r"^--- FAIL: (\w+)", t.stdout, re.M))
            if not failing or not failing <= {"TestJoe_Shutdown", "TestConnection_Unsubscriptions"} or attempt == 2:
                killed = True; res["failing_tests"] = sorted(failing)[:5]; break
        if killed:
            res["status"] = "KILLED-BY-TESTS"; return res
        ps = props_for(props, m["file"], m["func"])
        res["props"] = ps
        if not ps:
            res["status"] = "UNCOVERED"; return res
        for pid in ps:
            try:
                r = subprocess.run([os.path.join(VERIF, "bin/govc"), "-repo", repo, "-verif", vdir, "-prop", pid, "-nocache"], capture_output=True, text=True, timeout=900)
            except subprocess.TimeoutExpired:
                res["status"] = "CAUGHT"; res["by"] = pid + " (run exceeded 900 s)"; return res
            if r.returncode != 0:
                failed = [l.strip() for l in (r.stdout + r.stderr).splitlines() if l.strip().startswith(("failed ", "undischarged ", "missing ", "ENGINE-FAULT"))]
                res["status"] = "CAUGHT"; res["by"] = pid + ": " + "; ".join(re.sub(r"(\.\d+)*:\s.*", "", f.split(" ", 1)[1]) for f in failed[:3]); return res
        res["status"] = "SURVIVED"; return res
    finally:
        shutil.rmtree(tmp, ignore_errors=True)

def main():
    workers, only, gen2, gen3 = 4, None, False, False
    a = sys.argv[1:]
    while a:
        if a[0] == "--workers": workers = int(a[1]); a = a[2:]
        elif a[0] == "--only": only = a[1]; a = a[2:]
        elif a[0] == "--gen2": gen2 = True; a = a[1:]
        elif a[0] == "--gen3": gen3 = True; a = a[1:]
        else: a = a[1:]
    recheck = None
    if "--recheck-killed" in sys.argv:
        recheck = sys.argv[sys.argv.index("--recheck-killed") + 1]
    if "--gen4" in sys.argv:
        out = subprocess.run([os.path.join(VERIF, "bin/mutgen4"), REPO], capture_output=True, text=True).stdout
    else:
        out = subprocess.run([os.path.join(VERIF, "bin/mutgen"), REPO] + (["-gen2"] if gen2 else []) + (["-gen3"] if gen3 else []) + (["-gen5"] if "--gen5" in sys.argv else []), capture_output=True, text=True).stdout
    muts = [json.loads(l) for l in out.splitlines() if l.strip()]
    if only: muts = [m for m in muts if only in m["file"] or only in m["func"]]
    if recheck:
        # only the mutants an earlier run set aside as rejected by the tests (a flaky test may have done that wrongly)
        prev = [json.loads(l) for l in open(recheck) if l.strip()]
        muts = [{k: r[k] for k in ("file", "func", "line", "pos", "end", "old", "new", "op")} for r in prev if r.get("status") == "KILLED-BY-TESTS"]
    props = load_map()
    with cf.ThreadPoolExecutor(max_workers=workers) as ex:
        for r in ex.map(run_one, [(m, props) for m in muts]):
            print(json.dumps(r), flush=True)

if __name__ == "__main__":
    main()
