module mutgen

go 1.22
