// mutgen lists classic mutations (operator replacement, condition negation, constant shift, statement deletion) of the
// library's non-test source as JSON lines {file, func, pos, end, old, new, op}. Used by selftest/sweep.py to look for
// changes that the existing tests accept and the checks do not flag (contract holes or equivalent mutants).
package main

import (
	"encoding/json"
	"fmt"
	"go/ast"
	"go/parser"
	"go/token"
	"os"
	"path/filepath"
	"strings"
)

type Mut struct {
	File string `json:"file"`
	Func string `json:"func"`
	Line int    `json:"line"`
	Pos  int    `json:"pos"`
	End  int    `json:"end"`
	Old  string `json:"old"`
	New  string `json:"new"`
	Op   string `json:"op"`
}

var swaps = map[token.Token][]token.Token{
	token.LSS: {token.LEQ}, token.LEQ: {token.LSS}, token.GTR: {token.GEQ}, token.GEQ: {token.GTR},
	token.EQL: {token.NEQ}, token.NEQ: {token.EQL}, token.LAND: {token.LOR}, token.LOR: {token.LAND},
	token.ADD: {token.SUB}, token.SUB: {token.ADD},
}

var gen2 = false
var gen3 = false
var gen5 = false

func main() {
	root := os.Args[1]
	if len(os.Args) > 2 && os.Args[2] == "-gen2" {
		gen2 = true
	}
	if len(os.Args) > 2 && os.Args[2] == "-gen3" {
		gen3 = true
	}
	if len(os.Args) > 2 && os.Args[2] == "-gen5" {
		gen5 = true
	}
	enc := json.NewEncoder(os.Stdout)
	for _, dir := range []string{".", "internal/parser"} {
		files, _ := filepath.Glob(filepath.Join(root, dir, "*.go"))
		for _, f := range files {
			base := filepath.Base(f)
			if strings.HasSuffix(base, "_test.go") || strings.HasPrefix(base, "verif_") {
				continue
			}
			src, err := os.ReadFile(f)
			if err != nil {
				continue
			}
			fset := token.NewFileSet()
			af, err := parser.ParseFile(fset, f, src, 0)
			if err != nil {
				fmt.Fprintln(os.Stderr, err)
				continue
			}
			rel, _ := filepath.Rel(root, f)
			for _, d := range af.Decls {
				if gd, ok := d.(*ast.GenDecl); ok && gen2 && (gd.Tok == token.VAR || gd.Tok == token.CONST) {
					// package-level initialisers: string and integer literals
					ast.Inspect(gd, func(n ast.Node) bool {
						if bl, ok := n.(*ast.BasicLit); ok {
							o := fset.Position(bl.Pos()).Offset
							e := fset.Position(bl.End()).Offset
							old := string(src[o:e])
							if bl.Kind == token.STRING && len(old) > 3 && old[0] == '"' {
								enc.Encode(Mut{File: rel, Func: "(package level)", Line: fset.Position(bl.Pos()).Line, Pos: o, End: e, Old: old, New: old[:len(old)-2] + "\"", Op: "pkg-string-drop-last"})
							}
							if bl.Kind == token.INT && len(old) < 6 {
								enc.Encode(Mut{File: rel, Func: "(package level)", Line: fset.Position(bl.Pos()).Line, Pos: o, End: e, Old: old, New: old + "+1", Op: "pkg-const +1"})
							}
						}
						return true
					})
					continue
				}
				fd, ok := d.(*ast.FuncDecl)
				if !ok || fd.Body == nil {
					continue
				}
				name := fd.Name.Name
				if fd.Recv != nil && len(fd.Recv.List) > 0 {
					t := fd.Recv.List[0].Type
					if s, ok := t.(*ast.StarExpr); ok {
						t = s.X
					}
					if ix, ok := t.(*ast.IndexExpr); ok {
						t = ix.X
					}
					if id, ok := t.(*ast.Ident); ok {
						name = id.Name + "." + name
					}
				}
				off := func(p token.Pos) int { return fset.Position(p).Offset }
				emit := func(p, e token.Pos, nw, op string) {
					enc.Encode(Mut{File: rel, Func: name, Line: fset.Position(p).Line, Pos: off(p), End: off(e), Old: string(src[off(p):off(e)]), New: nw, Op: op})
				}
				if gen5 {
					// a statement executed twice; a return inserted after a statement (the rest of the block skipped)
					dup := func(list []ast.Stmt) {
						for i, st := range list {
							switch x := st.(type) {
							case *ast.ExprStmt, *ast.IncDecStmt, *ast.SendStmt:
								t := string(src[off(st.Pos()):off(st.End())])
								emit(st.Pos(), st.End(), t+"\n"+t, "duplicate-stmt")
							case *ast.AssignStmt:
								if x.Tok != token.DEFINE {
									t := string(src[off(st.Pos()):off(st.End())])
									emit(st.Pos(), st.End(), t+"\n"+t, "duplicate-stmt")
								}
							}
							if i+1 < len(list) && fd.Type.Results == nil {
								if _, isRet := list[i+1].(*ast.ReturnStmt); !isRet {
									switch st.(type) {
									case *ast.ExprStmt, *ast.AssignStmt, *ast.IncDecStmt:
										t := string(src[off(st.Pos()):off(st.End())])
										emit(st.Pos(), st.End(), t+"\nreturn", "early-return")
									}
								}
							}
						}
					}
					ast.Inspect(fd.Body, func(n ast.Node) bool {
						switch x := n.(type) {
						case *ast.BlockStmt:
							dup(x.List)
						case *ast.CaseClause:
							dup(x.Body)
						case *ast.CommClause:
							dup(x.Body)
						}
						return true
					})
					continue
				}
				if gen3 {
					simple := func(st ast.Stmt) bool {
						switch st.(type) {
						case *ast.AssignStmt, *ast.ExprStmt, *ast.IncDecStmt, *ast.SendStmt:
							return true
						}
						return false
					}
					ast.Inspect(fd.Body, func(n ast.Node) bool {
						switch x := n.(type) {
						case *ast.BlockStmt:
							for i := 0; i+1 < len(x.List); i++ {
								a, b := x.List[i], x.List[i+1]
								if simple(a) && simple(b) {
									at := string(src[off(a.Pos()):off(a.End())])
									bt := string(src[off(b.Pos()):off(b.End())])
									emit(a.Pos(), b.End(), bt+"\n"+at, "swap-statements")
								}
							}
						case *ast.CaseClause:
							for i := 0; i+1 < len(x.Body); i++ {
								a, b := x.Body[i], x.Body[i+1]
								if simple(a) && simple(b) {
									at := string(src[off(a.Pos()):off(a.End())])
									bt := string(src[off(b.Pos()):off(b.End())])
									emit(a.Pos(), b.End(), bt+"\n"+at, "swap-statements")
								}
							}
						case *ast.CallExpr:
							if len(x.Args) >= 2 {
								a0 := string(src[off(x.Args[0].Pos()):off(x.Args[0].End())])
								a1 := string(src[off(x.Args[1].Pos()):off(x.Args[1].End())])
								if a0 != a1 {
									emit(x.Args[0].Pos(), x.Args[1].End(), a1+", "+a0, "swap-arguments")
								}
							}
						case *ast.IfStmt:
							// an if with else: swap the branches
							if eb, ok := x.Else.(*ast.BlockStmt); ok && x.Init == nil {
								bt := string(src[off(x.Body.Pos()):off(x.Body.End())])
								et := string(src[off(eb.Pos()):off(eb.End())])
								emit(x.Body.Pos(), eb.End(), et+" else "+bt, "swap-branches")
							}
						case *ast.ReturnStmt:
							if len(x.Results) == 2 {
								if id, ok := x.Results[1].(*ast.Ident); ok && id.Name == "nil" {
									_ = id
								}
							}
						case *ast.AssignStmt:
							// x op= y  ->  x = y   (and +=  ->  -=)
							if x.Tok == token.ADD_ASSIGN {
								emit(x.TokPos, x.TokPos+2, "-=", "+=->-=")
								emit(x.TokPos, x.TokPos+2, "=", "+=->=")
							}
							if x.Tok == token.SUB_ASSIGN {
								emit(x.TokPos, x.TokPos+2, "+=", "-=->+=")
							}
						case *ast.IncDecStmt:
							if x.Tok == token.INC {
								emit(x.TokPos, x.TokPos+2, "--", "++->--")
							} else {
								emit(x.TokPos, x.TokPos+2, "++", "--->++")
							}
						case *ast.SelectorExpr:
							// field confusion: head <-> tail, a common slip in ring buffers
							if x.Sel.Name == "head" {
								emit(x.Sel.Pos(), x.Sel.End(), "tail", "head->tail")
							} else if x.Sel.Name == "tail" {
								emit(x.Sel.Pos(), x.Sel.End(), "head", "tail->head")
							}
						}
						return true
					})
					continue
				}
				if gen2 {
					ast.Inspect(fd.Body, func(n ast.Node) bool {
						switch x := n.(type) {
						case *ast.BinaryExpr:
							l := string(src[off(x.X.Pos()):off(x.X.End())])
							r := string(src[off(x.Y.Pos()):off(x.Y.End())])
							switch x.Op {
							case token.LAND, token.LOR:
								emit(x.Pos(), x.End(), l, "drop-right-operand")
								emit(x.Pos(), x.End(), r, "drop-left-operand")
							case token.LSS, token.LEQ:
								emit(x.OpPos, x.OpPos+token.Pos(len(x.Op.String())), ">", "op "+x.Op.String()+"->>")
							case token.GTR, token.GEQ:
								emit(x.OpPos, x.OpPos+token.Pos(len(x.Op.String())), "<", "op "+x.Op.String()+"-><")
							case token.EQL:
								emit(x.OpPos, x.OpPos+2, "<=", "op ==-><=")
							case token.MUL:
								emit(x.OpPos, x.OpPos+1, "/", "op *->/")
							case token.QUO:
								emit(x.OpPos, x.OpPos+1, "*", "op /->*")
							}
						case *ast.Ident:
							if x.Name == "true" {
								emit(x.Pos(), x.End(), "false", "true->false")
							} else if x.Name == "false" {
								emit(x.Pos(), x.End(), "true", "false->true")
							}
						case *ast.IfStmt:
							if x.Else == nil && x.Init == nil {
								emit(x.Pos(), x.End(), "", "delete-if")
							}
							if x.Else != nil {
								emit(x.Body.End(), x.Else.End(), "", "delete-else")
							}
						case *ast.BasicLit:
							if x.Kind == token.STRING {
								old := string(src[off(x.Pos()):off(x.End())])
								if len(old) > 3 && old[0] == '"' {
									emit(x.Pos(), x.End(), old[:len(old)-2]+"\"", "string-drop-last")
								}
							}
						case *ast.IndexExpr:
							ix := string(src[off(x.Index.Pos()):off(x.Index.End())])
							if _, isLit := x.Index.(*ast.BasicLit); !isLit && len(ix) < 30 {
								emit(x.Index.Pos(), x.Index.End(), "("+ix+")+1", "index+1")
							}
						case *ast.SliceExpr:
							if x.High != nil {
								h := string(src[off(x.High.Pos()):off(x.High.End())])
								emit(x.High.Pos(), x.High.End(), "("+h+")-1", "slice-high-1")
							}
							if x.Low != nil {
								l := string(src[off(x.Low.Pos()):off(x.Low.End())])
								emit(x.Low.Pos(), x.Low.End(), "("+l+")+1", "slice-low+1")
							}
						case *ast.UnaryExpr:
							if x.Op == token.NOT {
								emit(x.Pos(), x.Pos()+1, "", "drop-not")
							}
						case *ast.ReturnStmt:
							for _, r := range x.Results {
								if id, ok := r.(*ast.Ident); ok && id.Name == "err" {
									emit(r.Pos(), r.End(), "nil", "return-err->nil")
								}
							}
						}
						return true
					})
					continue
				}
				ast.Inspect(fd.Body, func(n ast.Node) bool {
					switch x := n.(type) {
					case *ast.BinaryExpr:
						for _, t := range swaps[x.Op] {
							emit(x.OpPos, x.OpPos+token.Pos(len(x.Op.String())), t.String(), "op "+x.Op.String()+"->"+t.String())
						}
					case *ast.IfStmt:
						if x.Cond != nil {
							c := string(src[off(x.Cond.Pos()):off(x.Cond.End())])
							emit(x.Cond.Pos(), x.Cond.End(), "!("+c+")", "negate-if")
						}
					case *ast.BasicLit:
						if x.Kind == token.INT {
							switch x.Value {
							case "0":
								emit(x.Pos(), x.End(), "1", "const 0->1")
							case "1":
								emit(x.Pos(), x.End(), "0", "const 1->0")
								emit(x.Pos(), x.End(), "2", "const 1->2")
							default:
								if len(x.Value) < 6 && !strings.HasPrefix(x.Value, "0") {
									emit(x.Pos(), x.End(), x.Value+"+1", "const +1")
								}
							}
						}
					case *ast.BlockStmt:
						for _, s := range x.List {
							switch s.(type) {
							case *ast.ExprStmt, *ast.AssignStmt, *ast.IncDecStmt, *ast.SendStmt, *ast.DeferStmt:
								if as, ok := s.(*ast.AssignStmt); ok && as.Tok == token.DEFINE {
									continue // deleting a declaration does not compile
								}
								emit(s.Pos(), s.End(), "", "delete-stmt")
							}
						}
					case *ast.CaseClause:
						for _, s := range x.Body {
							switch s.(type) {
							case *ast.ExprStmt, *ast.IncDecStmt, *ast.SendStmt:
								emit(s.Pos(), s.End(), "", "delete-stmt")
							case *ast.AssignStmt:
								if s.(*ast.AssignStmt).Tok != token.DEFINE {
									emit(s.Pos(), s.End(), "", "delete-stmt")
								}
							}
						}
					case *ast.BranchStmt:
						if x.Tok == token.BREAK && x.Label == nil {
							emit(x.Pos(), x.End(), "continue", "break->continue")
						}
					}
					return true
				})
			}
		}
	}
}
