// mutgen4: type-aware mutants - a use of a local variable (or parameter) replaced by another local of identical type that
// is in scope, and a selected struct field replaced by another field of identical type. Same JSON lines as mutgen.
package main

import (
	"encoding/json"
	"fmt"
	"go/ast"
	"go/importer"
	"go/parser"
	"go/token"
	"go/types"
	"os"
	"path/filepath"
	"sort"
	"strings"
)

type Mut struct {
	File string `json:"file"`
	Func string `json:"func"`
	Line int    `json:"line"`
	Pos  int    `json:"pos"`
	End  int    `json:"end"`
	Old  string `json:"old"`
	New  string `json:"new"`
	Op   string `json:"op"`
}

func main() {
	root := os.Args[1]
	enc := json.NewEncoder(os.Stdout)
	fset := token.NewFileSet()
	imp := importer.ForCompiler(fset, "source", nil)
	for _, dir := range []string{"internal/parser", "."} {
		matches, _ := filepath.Glob(filepath.Join(root, dir, "*.go"))
		var files []*ast.File
		srcs := map[*ast.File][]byte{}
		names := map[*ast.File]string{}
		for _, f := range matches {
			base := filepath.Base(f)
			if strings.HasSuffix(base, "_test.go") || strings.HasPrefix(base, "verif_") {
				continue
			}
			src, _ := os.ReadFile(f)
			af, err := parser.ParseFile(fset, f, src, 0)
			if err != nil {
				fmt.Fprintln(os.Stderr, err)
				continue
			}
			files = append(files, af)
			srcs[af] = src
			rel, _ := filepath.Rel(root, f)
			names[af] = rel
		}
		info := &types.Info{Uses: map[*ast.Ident]types.Object{}, Defs: map[*ast.Ident]types.Object{}, Selections: map[*ast.SelectorExpr]*types.Selection{}, Scopes: map[ast.Node]*types.Scope{}}
		conf := types.Config{Importer: imp, Error: func(error) {}}
		pkgPath := "github.com/tmaxmax/go-sse"
		if dir != "." {
			pkgPath += "/" + dir
		}
		pkg, _ := conf.Check(pkgPath, fset, files, info)
		if pkg == nil {
			continue
		}
		for _, af := range files {
			src := srcs[af]
			for _, d := range af.Decls {
				fd, ok := d.(*ast.FuncDecl)
				if !ok || fd.Body == nil {
					continue
				}
				name := fd.Name.Name
				if fd.Recv != nil && len(fd.Recv.List) > 0 {
					t := fd.Recv.List[0].Type
					if s, ok := t.(*ast.StarExpr); ok {
						t = s.X
					}
					if ix, ok := t.(*ast.IndexExpr); ok {
						t = ix.X
					}
					if id, ok := t.(*ast.Ident); ok {
						name = id.Name + "." + name
					}
				}
				off := func(p token.Pos) int { return fset.Position(p).Offset }
				emit := func(p, e token.Pos, nw, op string) {
					enc.Encode(Mut{File: names[af], Func: name, Line: fset.Position(p).Line, Pos: off(p), End: off(e), Old: string(src[off(p):off(e)]), New: nw, Op: op})
				}
				// local variables of the function (parameters, results, locals), by declaration position
				var locals []*types.Var
				ast.Inspect(fd, func(n ast.Node) bool {
					if id, ok := n.(*ast.Ident); ok {
						if v, ok := info.Defs[id].(*types.Var); ok && !v.IsField() && v.Name() != "_" {
							locals = append(locals, v)
						}
					}
					return true
				})
				lhs := map[*ast.Ident]bool{}
				ast.Inspect(fd.Body, func(n ast.Node) bool {
					if as, ok := n.(*ast.AssignStmt); ok {
						for _, l := range as.Lhs {
							if id, ok := l.(*ast.Ident); ok {
								lhs[id] = true
							}
						}
					}
					return true
				})
				ast.Inspect(fd.Body, func(n ast.Node) bool {
					switch x := n.(type) {
					case *ast.Ident:
						v, ok := info.Uses[x].(*types.Var)
						if !ok || v.IsField() || lhs[x] || v.Pkg() != pkg || v.Parent() == pkg.Scope() {
							return true
						}
						var cands []string
						for _, o := range locals {
							if o == v || o.Name() == v.Name() || !types.Identical(o.Type(), v.Type()) {
								continue
							}
							// in scope at the use: declared before it and its scope contains the use
							if o.Pos() < x.Pos() && o.Parent() != nil && o.Parent().Contains(x.Pos()) {
								cands = append(cands, o.Name())
							}
						}
						sort.Strings(cands)
						for i, c := range cands {
							if i >= 2 {
								break
							}
							emit(x.Pos(), x.End(), c, "var "+v.Name()+"->"+c)
						}
					case *ast.SelectorExpr:
						sel, ok := info.Selections[x]
						if !ok || sel.Kind() != types.FieldVal {
							return true
						}
						f := sel.Obj().(*types.Var)
						recv := sel.Recv()
						if p, ok := recv.Underlying().(*types.Pointer); ok {
							recv = p.Elem()
						}
						st, ok := recv.Underlying().(*types.Struct)
						if !ok {
							return true
						}
						n := 0
						for i := 0; i < st.NumFields() && n < 2; i++ {
							g := st.Field(i)
							if g != f && g.Name() != f.Name() && types.Identical(g.Type(), f.Type()) && !g.Embedded() {
								emit(x.Sel.Pos(), x.Sel.End(), g.Name(), "field "+f.Name()+"->"+g.Name())
								n++
							}
						}
					}
					return true
				})
			}
		}
	}
}
