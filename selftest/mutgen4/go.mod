module mutgen4

go 1.22
