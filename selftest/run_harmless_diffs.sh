#!/bin/bash
# Must-stay-quiet corpus written by sub-agents that saw only a property's text (selftest/harmless_diffs/*.diff, rationale in
# *_meta.txt): every behaviour-preserving edit is applied to a scratch copy of /repo's committed tree, must build and pass the
# test suite, and every claimed property's check (deductive part and bounded stand-ins) must stay quiet. Not a registered check.
cd "$(dirname "$0")/.."
export GOFLAGS=-mod=mod GOPROXY=off GOSUMDB=off GOTOOLCHAIN=local
bad=0
for d in selftest/harmless_diffs/*.diff; do
  python3 tools/harmcheck.py "$d" "$@" | sed "s|^QUIET .*|QUIET $d|; s|^ALARMS=\([0-9]*\) .*|ALARMS=\1 $d|" || true
  [ "${PIPESTATUS[0]}" -ne 0 ] && bad=$((bad+1))
done
echo "$(ls selftest/harmless_diffs/*.diff | wc -l) harmless diffs, $bad not quiet"
[ $bad -eq 0 ]
