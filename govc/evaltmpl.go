package main

// evalHelperSrc is a Go source file that is injected (through `go test -overlay`, nothing is written to /repo) next to
// a generated replay test. It evaluates a contract clause at run time, by reflection over the real values, with
// exact arithmetic. It understands the part of the contract language that talks about values (not the ghost trace).
const evalHelperSrc = `package PKGNAME

import (
	"fmt"
	"go/ast"
	"go/parser"
	"go/token"
	"math/big"
	"reflect"
	"strconv"
	"strings"
)

type verifPure struct {
	params []string
	body   string
}

type verifEnv struct {
	vars  map[string]reflect.Value // current values (inputs after the call, results)
	old   map[string]reflect.Value // values before the call
	pures map[string]verifPure
	bound map[string]any
	inOld bool
}

type verifUnsupported struct{ msg string }

func (v *verifEnv) clone() *verifEnv {
	n := *v
	n.bound = map[string]any{}
	for k, x := range v.bound {
		n.bound[k] = x
	}
	return &n
}

// verifEval returns (value, "") or (false, reason) when the clause uses something that cannot be evaluated at run time.
func verifEval(env *verifEnv, src string) (res bool, unsupported string) {
	defer func() {
		if r := recover(); r != nil {
			if u, ok := r.(verifUnsupported); ok {
				res, unsupported = false, u.msg
				return
			}
			panic(r)
		}
	}()
	e, err := parser.ParseExpr(src)
	if err != nil {
		return false, "parse: " + err.Error()
	}
	v := env.eval(e)
	b, ok := v.(bool)
	if !ok {
		return false, "clause is not boolean"
	}
	return b, ""
}

func verifNum(x any) (*big.Rat, bool) {
	switch n := x.(type) {
	case *big.Rat:
		return n, true
	case reflect.Value:
		return verifNum(verifNorm(n))
	}
	return nil, false
}

// verifNorm turns a reflected Go value into the evaluator's value domain.
func verifNorm(v reflect.Value) any {
	if !v.IsValid() {
		return nil
	}
	switch v.Kind() {
	case reflect.Bool:
		return v.Bool()
	case reflect.Int, reflect.Int8, reflect.Int16, reflect.Int32, reflect.Int64:
		return new(big.Rat).SetInt64(v.Int())
	case reflect.Uint, reflect.Uint8, reflect.Uint16, reflect.Uint32, reflect.Uint64, reflect.Uintptr:
		return new(big.Rat).SetInt(new(big.Int).SetUint64(v.Uint()))
	case reflect.Float32, reflect.Float64:
		r := new(big.Rat)
		if r.SetFloat64(v.Float()) == nil {
			panic(verifUnsupported{"non-finite float"})
		}
		return r
	case reflect.String:
		return v.String()
	case reflect.Slice:
		if v.Type().Elem().Kind() == reflect.Uint8 {
			b := make([]byte, v.Len())
			for i := range b {
				b[i] = byte(v.Index(i).Uint())
			}
			return string(b)
		}
		return v
	case reflect.Interface:
		if v.IsNil() {
			return nil
		}
		return verifNorm(v.Elem())
	case reflect.Ptr, reflect.Map, reflect.Chan, reflect.Func:
		if v.IsNil() {
			return nil
		}
		return v
	}
	return v
}

func (env *verifEnv) lookup(name string) (reflect.Value, bool) {
	if env.inOld {
		if v, ok := env.old[name]; ok {
			return v, true
		}
	}
	v, ok := env.vars[name]
	return v, ok
}

func (env *verifEnv) eval(e ast.Expr) any {
	switch x := e.(type) {
	case *ast.ParenExpr:
		return env.eval(x.X)
	case *ast.BasicLit:
		switch x.Kind {
		case token.INT, token.FLOAT:
			r, ok := new(big.Rat).SetString(x.Value)
			if !ok {
				panic(verifUnsupported{"number " + x.Value})
			}
			return r
		case token.CHAR:
			c, _, _, _ := strconv.UnquoteChar(x.Value[1:len(x.Value)-1], '\'')
			return new(big.Rat).SetInt64(int64(c))
		case token.STRING:
			s, _ := strconv.Unquote(x.Value)
			return s
		}
	case *ast.Ident:
		switch x.Name {
		case "true":
			return true
		case "false":
			return false
		case "nil":
			return nil
		}
		if b, ok := env.bound[x.Name]; ok {
			return b
		}
		if v, ok := env.lookup(x.Name); ok {
			return verifNorm(v)
		}
		panic(verifUnsupported{"identifier " + x.Name})
	case *ast.UnaryExpr:
		v := env.eval(x.X)
		switch x.Op {
		case token.NOT:
			return !v.(bool)
		case token.SUB:
			n, _ := verifNum(v)
			return new(big.Rat).Neg(n)
		case token.AND:
			return v
		}
	case *ast.StarExpr:
		v := env.eval(x.X)
		if rv, ok := v.(reflect.Value); ok && rv.Kind() == reflect.Ptr {
			return verifNorm(rv.Elem())
		}
		return v
	case *ast.BinaryExpr:
		switch x.Op {
		case token.LAND:
			return env.eval(x.X).(bool) && env.eval(x.Y).(bool)
		case token.LOR:
			return env.eval(x.X).(bool) || env.eval(x.Y).(bool)
		}
		a, b := env.eval(x.X), env.eval(x.Y)
		switch x.Op {
		case token.EQL:
			return verifEq(a, b)
		case token.NEQ:
			return !verifEq(a, b)
		}
		if sa, ok := a.(string); ok && x.Op == token.ADD {
			return sa + b.(string)
		}
		na, ok1 := verifNum(a)
		nb, ok2 := verifNum(b)
		if !ok1 || !ok2 {
			panic(verifUnsupported{"operator on non-numbers"})
		}
		switch x.Op {
		case token.ADD:
			return new(big.Rat).Add(na, nb)
		case token.SUB:
			return new(big.Rat).Sub(na, nb)
		case token.MUL:
			return new(big.Rat).Mul(na, nb)
		case token.QUO:
			if na.IsInt() && nb.IsInt() { // Go integer division truncates toward zero
				q := new(big.Int).Quo(na.Num(), nb.Num())
				return new(big.Rat).SetInt(q)
			}
			return new(big.Rat).Quo(na, nb)
		case token.REM:
			return new(big.Rat).SetInt(new(big.Int).Rem(na.Num(), nb.Num()))
		case token.LSS:
			return na.Cmp(nb) < 0
		case token.LEQ:
			return na.Cmp(nb) <= 0
		case token.GTR:
			return na.Cmp(nb) > 0
		case token.GEQ:
			return na.Cmp(nb) >= 0
		}
	case *ast.SelectorExpr:
		base := env.eval(x.X)
		rv, ok := base.(reflect.Value)
		if !ok {
			panic(verifUnsupported{"field of a non-struct"})
		}
		return verifNorm(verifField(rv, x.Sel.Name))
	case *ast.IndexExpr:
		base := env.eval(x.X)
		idx, _ := verifNum(env.eval(x.Index))
		i := int(idx.Num().Int64())
		switch b := base.(type) {
		case string:
			if i < 0 || i >= len(b) {
				panic(verifUnsupported{"index out of range in the contract itself"})
			}
			return new(big.Rat).SetInt64(int64(b[i]))
		case reflect.Value:
			if i < 0 || i >= b.Len() {
				panic(verifUnsupported{"index out of range in the contract itself"})
			}
			return verifNorm(b.Index(i))
		}
	case *ast.CallExpr:
		return env.call(x)
	}
	panic(verifUnsupported{fmt.Sprintf("expression %T", e)})
}

func verifField(rv reflect.Value, name string) reflect.Value {
	for rv.Kind() == reflect.Ptr || rv.Kind() == reflect.Interface {
		if rv.IsNil() {
			panic(verifUnsupported{"nil dereference in the contract itself"})
		}
		rv = rv.Elem()
	}
	if rv.Kind() != reflect.Struct {
		panic(verifUnsupported{"field " + name + " of a non-struct"})
	}
	if f := rv.FieldByName(name); f.IsValid() {
		return f
	}
	panic(verifUnsupported{"no field " + name})
}

func verifEq(a, b any) bool {
	if na, ok := verifNum(a); ok {
		if nb, ok := verifNum(b); ok {
			return na.Cmp(nb) == 0
		}
	}
	switch x := a.(type) {
	case nil:
		if rv, ok := b.(reflect.Value); ok {
			switch rv.Kind() {
			case reflect.Slice:
				return rv.Len() == 0
			}
			return false
		}
		return b == nil
	case bool:
		y, ok := b.(bool)
		return ok && x == y
	case string:
		if y, ok := b.(string); ok {
			return x == y
		}
		if b == nil {
			return false
		}
	case reflect.Value:
		if b == nil {
			return verifEq(b, a)
		}
		if y, ok := b.(reflect.Value); ok {
			if x.Kind() == reflect.Ptr && y.Kind() == reflect.Ptr {
				return x.Pointer() == y.Pointer()
			}
			return verifDeepEq(x, y)
		}
	}
	return false
}

func verifDeepEq(x, y reflect.Value) bool {
	if x.Kind() != y.Kind() {
		return false
	}
	switch x.Kind() {
	case reflect.Struct:
		for i := 0; i < x.NumField(); i++ {
			if !verifEq(verifNorm(x.Field(i)), verifNorm(y.Field(i))) {
				return false
			}
		}
		return true
	case reflect.Slice, reflect.Array:
		if x.Len() != y.Len() {
			return false
		}
		for i := 0; i < x.Len(); i++ {
			if !verifEq(verifNorm(x.Index(i)), verifNorm(y.Index(i))) {
				return false
			}
		}
		return true
	}
	return verifEq(verifNorm(x), verifNorm(y)) && (x.Kind() == reflect.Bool || x.Kind() == reflect.String || x.CanInt() || x.CanUint() || x.CanFloat())
}

func verifLen(v any) *big.Rat {
	switch s := v.(type) {
	case string:
		return new(big.Rat).SetInt64(int64(len(s)))
	case reflect.Value:
		return new(big.Rat).SetInt64(int64(s.Len()))
	case nil:
		return new(big.Rat)
	}
	panic(verifUnsupported{"len of this value"})
}

func (env *verifEnv) call(c *ast.CallExpr) any {
	id, ok := c.Fun.(*ast.Ident)
	if !ok {
		panic(verifUnsupported{"method call in a contract"})
	}
	num := func(i int) *big.Rat {
		n, ok := verifNum(env.eval(c.Args[i]))
		if !ok {
			panic(verifUnsupported{"numeric argument expected"})
		}
		return n
	}
	switch id.Name {
	case "old":
		o := env.clone()
		o.inOld = true
		return o.eval(c.Args[0])
	case "imp":
		if !env.eval(c.Args[0]).(bool) {
			return true
		}
		return env.eval(c.Args[1]).(bool)
	case "iff":
		return env.eval(c.Args[0]).(bool) == env.eval(c.Args[1]).(bool)
	case "ite":
		if env.eval(c.Args[0]).(bool) {
			return env.eval(c.Args[1])
		}
		return env.eval(c.Args[2])
	case "let":
		n := env.clone()
		n.bound[c.Args[0].(*ast.Ident).Name] = env.eval(c.Args[1])
		return n.eval(c.Args[2])
	case "forall", "exists":
		lo, hi := num(1), num(2)
		name := c.Args[0].(*ast.Ident).Name
		if new(big.Rat).Sub(hi, lo).Cmp(new(big.Rat).SetInt64(1<<20)) > 0 {
			panic(verifUnsupported{"quantifier range too large to enumerate"})
		}
		for i := new(big.Int).Set(lo.Num()); i.Cmp(hi.Num()) < 0; i.Add(i, big.NewInt(1)) {
			n := env.clone()
			n.bound[name] = new(big.Rat).SetInt(i)
			b := n.eval(c.Args[3]).(bool)
			if id.Name == "forall" && !b {
				return false
			}
			if id.Name == "exists" && b {
				return true
			}
		}
		return id.Name == "forall"
	case "len":
		return verifLen(env.eval(c.Args[0]))
	case "min", "max":
		a, b := num(0), num(1)
		if (a.Cmp(b) <= 0) == (id.Name == "min") {
			return a
		}
		return b
	case "substr":
		s, ok := env.eval(c.Args[0]).(string)
		if !ok {
			panic(verifUnsupported{"substr of a non-string"})
		}
		a, b := int(num(1).Num().Int64()), int(num(2).Num().Int64())
		if a < 0 || b < a || b > len(s) {
			panic(verifUnsupported{"substr out of range in the contract itself"})
		}
		return s[a:b]
	case "eqbytes":
		return verifEq(env.eval(c.Args[0]), env.eval(c.Args[1]))
	case "toReal", "int", "int64", "uint64", "float64":
		return num(0)
	case "trunc":
		n := num(0)
		return new(big.Rat).SetInt(new(big.Int).Quo(n.Num(), n.Denom()))
	case "fmtU":
		return num(0).Num().String()
	case "parseUok":
		_, err := strconv.ParseUint(env.eval(c.Args[0]).(string), 10, 64)
		return err == nil
	case "parseUval":
		u, _ := strconv.ParseUint(env.eval(c.Args[0]).(string), 10, 64)
		return new(big.Rat).SetInt(new(big.Int).SetUint64(u))
	case "indexbyte":
		return new(big.Rat).SetInt64(int64(strings.IndexByte(env.eval(c.Args[0]).(string), byte(num(1).Num().Int64()))))
	case "ringidx":
		h, l, k := num(0), num(1), num(2)
		s := new(big.Rat).Add(h, k)
		if s.Cmp(l) < 0 {
			return s
		}
		return s.Sub(s, l)
	case "zeroelem":
		if rv, ok := env.eval(c.Args[0]).(reflect.Value); ok {
			return verifNorm(reflect.Zero(rv.Type().Elem()))
		}
	}
	if p, ok := env.pures[id.Name]; ok {
		n := env.clone()
		for i, name := range p.params {
			n.bound[name] = env.eval(c.Args[i])
		}
		body, err := parser.ParseExpr(p.body)
		if err != nil {
			panic(verifUnsupported{"pure " + id.Name + ": " + err.Error()})
		}
		return n.eval(body)
	}
	panic(verifUnsupported{"contract builtin " + id.Name + " has no run-time meaning (ghost state)"})
}
`
