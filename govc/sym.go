package main

// Symbolic state, values, locations.

import (
	"fmt"
	"go/ast"
	"go/token"
	"go/types"
	"strings"
)

type Val struct {
	T     types.Type // Go type when known (nil for purely logical values)
	S     string     // SMT sort
	X     string     // SMT term
	Root  string     // pointer values: heap key of the cell pointed into ("" = pointee type's own key)
	Path  []string   // pointer values: interior field path inside that cell
	PT    types.Type // pointer values with Root set: Go type of the root cell
	Lit   *string    // known string literal
	Fn    *Closure   // function values known statically
	Guard string     // lock key guarding the object this value designates (maps read from guarded fields)
}

type Closure struct {
	Lit  *ast.FuncLit
	Decl *ast.FuncDecl
	Env  *State // captured variables are looked up in the defining state's env (by object)
	Recv *Val
	Key  string
}

const (
	locVar = iota
	locCell
	locField
	locElem
)

type Loc struct {
	kind  int
	obj   types.Object
	key   string
	ref   string
	base  *Loc
	field string
	idx   string
	T     types.Type
	S     string // sort of the cell when it differs from sortOf(T) (map cells)
}

type State struct {
	env                    map[types.Object]Val
	names                  map[string]types.Object
	bound                  map[string]Val
	heap                   map[string]string
	pc                     []string
	old                    *State
	births                 int
	trN                    string            // number of abstract calls so far
	trCols                 map[string]string // trace columns: name -> (Array Int X) term
	ghost                  map[string]Val
	iterK                  string // current canonical-loop index, for automatic trace tagging
	retVals                []Val
	panicked               bool
	defers                 []*ast.DeferStmt
	locks                  map[string]string // ghost: mutex key -> 0 (free), 1 (read-locked), 2 (write-locked)
	panicVal               string            // value of the panic in flight ("" = none)
	rangeKey, rangeKeySort string            // key of the innermost map-range iteration (ghost tagging of abstract calls)
	rangeOrd               int
	recoverDepth           int
	iterHead               *State         // state at the head of the current loop iteration (for prev())
	loopExit               map[int]*State // state in which loop N was left through its guard (for atexit())
}

func (s *State) clone() *State {
	n := *s
	n.env = make(map[types.Object]Val, len(s.env))
	for k, v := range s.env {
		n.env[k] = v
	}
	n.names = make(map[string]types.Object, len(s.names))
	for k, v := range s.names {
		n.names[k] = v
	}
	n.bound = make(map[string]Val, len(s.bound))
	for k, v := range s.bound {
		n.bound[k] = v
	}
	n.heap = make(map[string]string, len(s.heap))
	for k, v := range s.heap {
		n.heap[k] = v
	}
	n.trCols = make(map[string]string, len(s.trCols))
	for k, v := range s.trCols {
		n.trCols[k] = v
	}
	n.ghost = make(map[string]Val, len(s.ghost))
	for k, v := range s.ghost {
		n.ghost[k] = v
	}
	n.pc = append([]string(nil), s.pc...)
	n.defers = append([]*ast.DeferStmt(nil), s.defers...)
	if s.loopExit != nil {
		n.loopExit = make(map[int]*State, len(s.loopExit))
		for k, v := range s.loopExit {
			n.loopExit[k] = v
		}
	}
	n.locks = make(map[string]string, len(s.locks))
	for k, v := range s.locks {
		n.locks[k] = v
	}
	return &n
}

func (s *State) assume(c string) {
	if c == "true" {
		return
	}
	// cheap de-duplication of the most recent facts
	for i := len(s.pc) - 1; i >= 0 && i >= len(s.pc)-40; i-- {
		if s.pc[i] == c {
			return
		}
	}
	s.pc = append(s.pc, c)
}

type Obligation struct {
	Name   string
	Kind   string
	Assume []string
	Goal   string
	Cases  []OblCase // further paths reaching the same named obligation
	Raw    string    // complete SMT-LIB text (engine lemmas)
	Func   string
	Expect string // "unsat" normally; "sat" for vacuity probes
	Info   string
}

type OblCase struct {
	Assume []string
	Goal   string
}

// Fx is the per-function verification context.
type Fx struct {
	selectComm   bool // executing the communication of a select case (it does not block on its own)
	v            *Verifier
	pkg          *Pkg
	d            *Decls
	spec         *FuncSpec
	key          string
	decl         *ast.FuncDecl
	lit          *ast.FuncLit
	sig          *types.Signature
	obls         []*Obligation
	loopOrd      map[ast.Node]int
	litOrd       map[*ast.FuncLit]int
	results      []types.Object
	callOrd      map[string]int
	heapSort     map[string]string
	dropped      map[string]bool
	assumed      map[string]bool
	depth        int
	paths        int
	inSpec       int
	errGlobals   []string
	oblSeen      map[string]int
	inQuant      int
	rootSpec     *FuncSpec // contract of the function under verification (fx.spec changes while inlining)
	inlineName   string    // name of the function whose body is being inlined
	namedResults bool
	siteOrd      map[ast.Node]int
	opaqueRet    map[string]Val
	defs         map[string]string // shared sub-terms: constant -> defining term
}

func (fx *Fx) note(drop string) { fx.dropped[drop] = true }

// share names a large term by a fresh constant (a definitional axiom), so that terms do not grow exponentially.
func (fx *Fx) share(term, sort string) string {
	if len(term) <= 200 || fx.inQuant > 0 {
		return term // (terms under a binder may mention the bound variable: never name them globally)
	}
	c := fx.d.freshConst("t", sort)
	fx.d.axioms = append(fx.d.axioms, "(assert (= "+c+" "+term+"))")
	if fx.defs == nil {
		fx.defs = map[string]string{}
	}
	fx.defs[c] = term
	return c
}

// ctorArgsOf looks through shared constants.
func (fx *Fx) ctorArgsOf(term, ctor string) ([]string, bool) {
	if def, ok := fx.defs[term]; ok {
		term = def
	}
	return ctorArgs(term, ctor)
}

func (fx *Fx) oblige(st *State, kind, label, goal, info string) {
	// a conjunction is split into one obligation per conjunct (smaller queries, sharper failure reports)
	if parts, ok := ctorArgs(goal, "and"); ok && len(parts) > 1 && (kind == "post" || kind == "inv-init" || kind == "inv-step" || kind == "pre" || kind == "step") {
		parts = flattenAnd(parts)
		for i, p := range parts {
			fx.obligeOne(st, kind, fmt.Sprintf("%s.%d", label, i+1), p, info)
		}
		return
	}
	// A ==> (c1 && c2 ...) is split as well
	if args, ok := ctorArgs(goal, "=>"); ok && len(args) == 2 && (kind == "post" || kind == "inv-init" || kind == "inv-step" || kind == "pre" || kind == "step") {
		if parts, ok := ctorArgs(args[1], "and"); ok && len(parts) > 1 {
			parts = flattenAnd(parts)
			for i, p := range parts {
				fx.oblige(st, kind, fmt.Sprintf("%s.%d", label, i+1), implies(args[0], p), info)
			}
			return
		}
	}
	fx.obligeOne(st, kind, label, goal, info)
}

func (fx *Fx) obligeOne(st *State, kind, label, goal, info string) {
	name := fx.key + "/" + kind + ":" + label
	if idx, ok := fx.oblSeen[name]; ok {
		o := fx.obls[idx]
		if goal != "true" {
			o.Cases = append(o.Cases, OblCase{Assume: append([]string(nil), st.pc...), Goal: goal})
		}
		return
	}
	fx.oblSeen[name] = len(fx.obls)
	fx.obls = append(fx.obls, &Obligation{Name: name, Kind: kind, Assume: append([]string(nil), st.pc...), Goal: goal, Func: fx.key, Expect: "unsat", Info: info})
}

func flattenAnd(parts []string) []string {
	var out []string
	for _, p := range parts {
		if sub, ok := ctorArgs(p, "and"); ok && len(sub) > 1 {
			out = append(out, flattenAnd(sub)...)
		} else {
			out = append(out, p)
		}
	}
	return out
}

// ---------- heap ----------

func (fx *Fx) heapTerm(st *State, key string, cellSort string) string {
	if t, ok := st.heap[key]; ok {
		return t
	}
	fx.heapSort[key] = cellSort
	t := fx.d.declareConst("H_"+key+"@0", "(Array Ref "+cellSort+")")
	st.heap[key] = t
	if st.old != nil {
		if _, ok := st.old.heap[key]; !ok {
			st.old.heap[key] = t
		}
	}
	return t
}

func cellKey(t types.Type) string { return typeKey(t) }

// ---------- locations ----------

func (fx *Fx) load(st *State, l *Loc) Val {
	switch l.kind {
	case locVar:
		v, ok := st.env[l.obj]
		if !ok {
			panic(unsupported("read of undefined variable " + l.obj.Name()))
		}
		if v.Root == "@local" {
			return fx.load(st, &Loc{kind: locCell, key: "local_" + typeKey(l.obj.Type()), ref: v.X, T: l.obj.Type()})
		}
		return v
	case locCell:
		s := l.S
		if s == "" {
			s = fx.d.sortOf(l.T)
		}
		h := fx.heapTerm(st, l.key, s)
		return fx.loaded(st, Val{T: l.T, S: s, X: app("select", h, l.ref)})
	case locField:
		b := fx.load(st, l.base)
		return fx.fieldOf(st, b, l.field, l.T)
	case locElem:
		b := fx.load(st, l.base)
		return fx.indexVal(st, b, l.idx, l.T)
	}
	panic("bad loc")
}

// loaded adds the facts known about any value read from memory.
func (fx *Fx) loaded(st *State, v Val) Val {
	if fx.inQuant == 0 && strings.HasPrefix(v.S, "Seq_") {
		st.assume(and(app("<=", "0", fx.seqLen(v)), app("<=", fx.seqLen(v), app("cap_"+v.S, v.X))))
		fx.older(st, app("bk_"+v.S, v.X)) // a backing array read from memory was allocated before now
	}
	if fx.inQuant == 0 && v.S == SInt && v.T != nil {
		if b, ok := v.T.Underlying().(*types.Basic); ok && b.Info()&types.IsInteger != 0 && !isUntyped(v.T) {
			if lo, hi := intRange(b); lo != "" {
				st.assume(and(app("<=", lo, v.X), app("<=", v.X, hi)))
			}
		}
	}
	return v
}

func (fx *Fx) fieldOf(st *State, b Val, field string, ft types.Type) Val {
	if _, ok := fx.d.structs[b.S]; !ok {
		panic(unsupported("field " + field + " of non-struct sort " + b.S))
	}
	info := fx.d.structs[b.S]
	for i, f := range info.fields {
		if f == field {
			t := ft
			if t == nil {
				t = info.ftypes[i]
			}
			x := app(fieldSel(b.S, field), b.X)
			// simplify selector applied to constructor
			if parts, ok := fx.ctorArgsOf(b.X, info.ctor); ok && len(parts) == len(info.fields) {
				x = parts[i]
			}
			return fx.loaded(st, Val{T: t, S: info.fsorts[i], X: x})
		}
	}
	panic(unsupported("no field " + field + " in " + b.S))
}

// ctorArgs splits "(ctor a b c)" into its arguments.
func ctorArgs(term, ctor string) ([]string, bool) {
	if !strings.HasPrefix(term, "("+ctor+" ") || !strings.HasSuffix(term, ")") {
		return nil, false
	}
	body := term[len(ctor)+2 : len(term)-1]
	var parts []string
	depth := 0
	start := 0
	inBar := false
	for i := 0; i < len(body); i++ {
		c := body[i]
		switch {
		case c == '|':
			inBar = !inBar
		case inBar:
		case c == '(':
			depth++
		case c == ')':
			depth--
		case c == ' ' && depth == 0:
			if i > start {
				parts = append(parts, body[start:i])
			}
			start = i + 1
		}
	}
	if start < len(body) {
		parts = append(parts, body[start:])
	}
	return parts, depth == 0
}

func (fx *Fx) withField(b Val, field string, nv string) string {
	info := fx.d.structs[b.S]
	var parts []string
	cur, isCtor := fx.ctorArgsOf(b.X, info.ctor)
	for i, f := range info.fields {
		if f == field {
			parts = append(parts, nv)
		} else if isCtor && len(cur) == len(info.fields) {
			parts = append(parts, cur[i])
		} else {
			parts = append(parts, app(fieldSel(b.S, f), b.X))
		}
	}
	return fx.share("("+info.ctor+" "+strings.Join(parts, " ")+")", b.S)
}

func (fx *Fx) indexVal(st *State, b Val, idx string, et types.Type) Val {
	switch {
	case b.S == SStr:
		return Val{T: types.Typ[types.Byte], S: SInt, X: app("sat", b.X, idx)}
	case strings.HasPrefix(b.S, "Seq_"):
		es := fx.elemSort(b)
		if et == nil {
			et = elemType(b.T)
		}
		return Val{T: et, S: es, X: app("select", app("arr_"+b.S, b.X), idx)}
	case strings.HasPrefix(b.S, "(Array Int "):
		es := strings.TrimSuffix(strings.TrimPrefix(b.S, "(Array Int "), ")")
		if et == nil {
			et = elemType(b.T)
		}
		return Val{T: et, S: es, X: app("select", b.X, idx)}
	}
	panic(unsupported("index of sort " + b.S))
}

func elemType(t types.Type) types.Type {
	if t == nil {
		return nil
	}
	switch u := t.Underlying().(type) {
	case *types.Slice:
		return u.Elem()
	case *types.Array:
		return u.Elem()
	case *types.Pointer:
		return elemType(u.Elem())
	case *types.Basic:
		if u.Info()&types.IsString != 0 {
			return types.Typ[types.Byte]
		}
	}
	return nil
}

func (fx *Fx) elemSort(b Val) string {
	if et := elemType(b.T); et != nil {
		return fx.d.sortOf(et)
	}
	// recover from the declared datatype name
	for _, s := range fx.d.sorts {
		pre := "(declare-datatypes ((" + b.S + " 0)) (((mk_" + b.S + " (arr_" + b.S + " (Array Int "
		if strings.HasPrefix(s, pre) {
			rest := s[len(pre):]
			return rest[:strings.Index(rest, "))")]
		}
	}
	panic(unsupported("element sort of " + b.S))
}

func (fx *Fx) seqLen(b Val) string {
	switch {
	case b.S == SStr:
		return app("slen", b.X)
	case strings.HasPrefix(b.S, "Seq_"):
		if parts, ok := fx.ctorArgsOf(b.X, "mk_"+b.S); ok && len(parts) == 4 {
			return parts[1]
		}
		return app("len_"+b.S, b.X)
	}
	panic(unsupported("len of sort " + b.S))
}

func (fx *Fx) store(st *State, l *Loc, v Val) {
	switch l.kind {
	case locVar:
		if cur, ok := st.env[l.obj]; ok && cur.Root == "@local" {
			fx.store(st, &Loc{kind: locCell, key: "local_" + typeKey(l.obj.Type()), ref: cur.X, T: l.obj.Type()}, v)
			return
		}
		if v.T == nil {
			v.T = l.T
		}
		st.env[l.obj] = v
	case locCell:
		s := l.S
		if s == "" {
			s = fx.d.sortOf(l.T)
		}
		h := fx.heapTerm(st, l.key, s)
		st.heap[l.key] = fx.share(app("store", h, l.ref, v.X), "(Array Ref "+s+")")
	case locField:
		b := fx.load(st, l.base)
		fx.store(st, l.base, Val{T: b.T, S: b.S, X: fx.withField(b, l.field, v.X)})
	case locElem:
		b := fx.load(st, l.base)
		switch {
		case strings.HasPrefix(b.S, "Seq_"):
			arr := app("arr_"+b.S, b.X)
			ln := fx.seqLen(b)
			if parts, ok := fx.ctorArgsOf(b.X, "mk_"+b.S); ok && len(parts) == 4 {
				arr = parts[0]
			}
			fx.store(st, l.base, Val{T: b.T, S: b.S, X: fx.share(app("mk_"+b.S, app("store", arr, l.idx, v.X), ln, app("cap_"+b.S, b.X), app("bk_"+b.S, b.X)), b.S)})
		case strings.HasPrefix(b.S, "(Array Int "):
			fx.store(st, l.base, Val{T: b.T, S: b.S, X: app("store", b.X, l.idx, v.X)})
		default:
			panic(unsupported("store into element of " + b.S))
		}
	}
}

// derefLoc gives the location a pointer value points to.
func (fx *Fx) derefLoc(st *State, p Val) *Loc {
	var pointee types.Type
	if p.T != nil {
		if pt, ok := p.T.Underlying().(*types.Pointer); ok {
			pointee = pt.Elem()
		}
	}
	if p.Root != "" {
		l := &Loc{kind: locCell, key: p.Root, ref: p.X, T: p.PT}
		for _, f := range p.Path {
			if strings.HasPrefix(f, "#") {
				l = &Loc{kind: locElem, base: l, idx: f[1:], T: elemType(l.T)}
				continue
			}
			ft := fieldType(l.T, f)
			l = &Loc{kind: locField, base: l, field: f, T: ft}
		}
		return l
	}
	if pointee == nil {
		panic(unsupported("dereference of untyped pointer"))
	}
	return &Loc{kind: locCell, key: cellKey(pointee), ref: p.X, T: pointee}
}

func fieldType(t types.Type, field string) types.Type {
	if st, ok := t.Underlying().(*types.Struct); ok {
		for i := 0; i < st.NumFields(); i++ {
			if st.Field(i).Name() == field {
				return st.Field(i).Type()
			}
		}
	}
	panic(unsupported(fmt.Sprintf("field %s of %s", field, t)))
}

// addrOf builds a pointer value to a location.
func (fx *Fx) addrOf(st *State, l *Loc) Val {
	// walk up to the root cell collecting the field path
	var path []string
	cur := l
	for cur.kind == locField || cur.kind == locElem {
		if cur.kind == locElem {
			path = append([]string{"#" + cur.idx}, path...)
		} else {
			path = append([]string{cur.field}, path...)
		}
		cur = cur.base
	}
	if cur.kind != locCell {
		panic(unsupported("address of a non-heap location"))
	}
	return Val{T: types.NewPointer(l.T), S: SRef, X: cur.ref, Root: cur.key, Path: path, PT: cur.T}
}

func (fx *Fx) alloc(st *State, hint string) string {
	r := fx.d.freshConst("new_"+hint, SRef)
	st.births++
	st.assume(not(app("=", r, "nil")))
	fx.d.declareFun("birth", []string{SRef}, SInt)
	st.assume(app("=", app(sym("birth"), r), fmt.Sprint(st.births)))
	return r
}

// older states that a reference obtained from the environment existed before any allocation made so far on this path.
func (fx *Fx) older(st *State, x string) {
	fx.d.declareFun("birth", []string{SRef}, SInt)
	st.assume(app("<=", app(sym("birth"), x), fmt.Sprint(st.births)))
}

func (fx *Fx) freshVal(st *State, hint string, t types.Type) Val {
	s := fx.d.sortOf(t)
	v := Val{T: t, S: s, X: fx.d.freshConst(hint, s)}
	fx.typeFacts(st, v, 0)
	return v
}

var maxInt = "9223372036854775807"
var minInt = "(- 9223372036854775808)"

// typeFacts assumes the invariants every value of a Go type satisfies (ranges, non-negative lengths).
func (fx *Fx) typeFacts(st *State, v Val, depth int) {
	if v.T == nil || depth > 3 {
		return
	}
	switch u := v.T.Underlying().(type) {
	case *types.Basic:
		if u.Info()&types.IsInteger != 0 {
			lo, hi := intRange(u)
			if lo != "" {
				st.assume(and(app("<=", lo, v.X), app("<=", v.X, hi)))
			}
		}
	case *types.Slice:
		if v.S != SStr {
			st.assume(and(app("<=", "0", fx.seqLen(v)), app("<=", fx.seqLen(v), app("cap_"+v.S, v.X))))
		}
	case *types.Struct:
		if n, ok := v.T.(*types.Named); ok && isTimeTime(n) {
			return
		}
		info := fx.d.structs[v.S]
		if info == nil {
			return
		}
		for i, f := range info.fields {
			if f == "_empty" {
				continue
			}
			fx.typeFacts(st, Val{T: info.ftypes[i], S: info.fsorts[i], X: app(fieldSel(v.S, f), v.X)}, depth+1)
		}
	}
}

func intRange(b *types.Basic) (string, string) {
	switch b.Kind() {
	case types.Int, types.Int64:
		return minInt, maxInt
	case types.Int32:
		return "(- 2147483648)", "2147483647"
	case types.Uint64, types.Uint, types.Uintptr:
		return "0", "18446744073709551615"
	case types.Uint8:
		return "0", "255"
	case types.Uint32:
		return "0", "4294967295"
	case types.Int8:
		return "(- 128)", "127"
	case types.Int16:
		return "(- 32768)", "32767"
	case types.Uint16:
		return "0", "65535"
	}
	return "", ""
}

func isUnsigned64(t types.Type) bool {
	if t == nil {
		return false
	}
	b, ok := t.Underlying().(*types.Basic)
	return ok && (b.Kind() == types.Uint64 || b.Kind() == types.Uint || b.Kind() == types.Uintptr)
}

func posOf(fset *token.FileSet, n ast.Node) string {
	p := fset.Position(n.Pos())
	return fmt.Sprintf("%s:%d", p.Filename, p.Line)
}
