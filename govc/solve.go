package main

// Discharging obligations: race z3-new, z3, cvc5; cache by query hash.

import (
	"context"
	"crypto/sha256"
	"encoding/hex"
	"encoding/json"
	"fmt"
	"os"
	"os/exec"
	"path/filepath"
	"strings"
	"sync"
	"time"
)

type Result struct {
	Name    string  `json:"name"`
	Kind    string  `json:"kind"`
	Func    string  `json:"func"`
	Status  string  `json:"result"` // discharged | failed | fault
	Answer  string  `json:"answer"` // unsat | sat | unknown | timeout | trivial
	Solver  string  `json:"solver"`
	TimeS   float64 `json:"time_s"`
	Cached  bool    `json:"cached,omitempty"`
	Model   string  `json:"-"`
	Query   string  `json:"-"`
	Expect  string  `json:"expect,omitempty"`
	Output  string  `json:"-"`
	Info    string  `json:"info,omitempty"`
	Answers map[string]string `json:"answers,omitempty"`
	Paths   int               `json:"paths,omitempty"`
}

type solverSpec struct {
	name string
	args func(file string, timeout int, model bool) []string
}

var solvers = []solverSpec{
	{"z3-new", func(f string, t int, m bool) []string { return []string{"z3-new", fmt.Sprintf("-T:%d", t), f} }},
	{"z3", func(f string, t int, m bool) []string { return []string{"z3", fmt.Sprintf("-T:%d", t), f} }},
	{"cvc5", func(f string, t int, m bool) []string {
		a := []string{"cvc5", fmt.Sprintf("--tlimit=%d", t*1000), "-q", "--full-saturate-quant"}
		if m {
			a = append(a, "--produce-models")
		}
		return append(a, f)
	}},
}

type Solver struct {
	dir      string
	cacheDir string
	useCache bool
	timeout  int
	all      bool // thorough: run every solver and compare
	mu       sync.Mutex
	solverS  float64
	seq      int
	versions string
}

func newSolver(tier string, cacheDir string) (*Solver, error) {
	dir, err := os.MkdirTemp("", "govc-smt-")
	if err != nil {
		return nil, err
	}
	s := &Solver{dir: dir, cacheDir: cacheDir, useCache: tier == "quick", timeout: 20, all: tier == "thorough"}
	if tier == "thorough" {
		s.timeout = 60
	}
	if cacheDir != "" {
		os.MkdirAll(cacheDir, 0o755)
	}
	s.versions = solverVersions()
	return s, nil
}

func solverVersions() string {
	var parts []string
	for _, c := range [][]string{{"z3-new", "--version"}, {"z3", "--version"}, {"cvc5", "--version"}} {
		out, err := exec.Command(c[0], c[1:]...).Output()
		if err != nil {
			parts = append(parts, c[0]+": unavailable")
			continue
		}
		line := strings.SplitN(string(out), "\n", 2)[0]
		parts = append(parts, c[0]+": "+strings.TrimSpace(line))
	}
	return strings.Join(parts, "; ")
}

func (s *Solver) close() { os.RemoveAll(s.dir) }

type cacheEntry struct {
	Answer string  `json:"answer"`
	Solver string  `json:"solver"`
	TimeS  float64 `json:"time_s"`
	Model  string  `json:"model,omitempty"`
}

func firstLine(out string) string {
	for _, l := range strings.Split(out, "\n") {
		l = strings.TrimSpace(l)
		if l != "" {
			return l
		}
	}
	return ""
}

func (s *Solver) runOne(sp solverSpec, file string, timeout int, model bool) (answer, output string, secs float64) {
	return s.runOneCtx(context.Background(), sp, file, timeout, model)
}

func (s *Solver) runOneCtx(parent context.Context, sp solverSpec, file string, timeout int, model bool) (answer, output string, secs float64) {
	ctx, cancel := context.WithTimeout(parent, time.Duration(timeout+5)*time.Second)
	defer cancel()
	args := sp.args(file, timeout, model)
	t0 := time.Now()
	cmd := exec.CommandContext(ctx, args[0], args[1:]...)
	out, _ := cmd.CombinedOutput()
	secs = time.Since(t0).Seconds()
	s.mu.Lock()
	s.solverS += secs
	s.mu.Unlock()
	output = string(out)
	fl := firstLine(output)
	switch {
	case fl == "unsat", fl == "sat", fl == "unknown":
		answer = fl
	case parent.Err() != nil:
		answer = "cancelled"
	case fl == "timeout" || strings.Contains(fl, "timeout") || ctx.Err() != nil || strings.Contains(output, "interrupted by timeout"):
		answer = "timeout"
	case strings.HasPrefix(fl, "(error"):
		answer = "error"
	case fl == "":
		answer = "timeout"
	default:
		answer = "error"
	}
	return
}

// solve decides one obligation; an obligation reached on several paths is decided path by path
// (one query per path, same name) and is discharged when every path is.
func (s *Solver) solve(d *Decls, o *Obligation) *Result {
	if len(o.Cases) > 0 && o.Expect == "not-unsat" {
		// reachability canary: some exit path must have a context that is not contradictory
		all := append([]OblCase{{Assume: o.Assume, Goal: o.Goal}}, o.Cases...)
		var last *Result
		total := 0.0
		for i, c := range all {
			sub := &Obligation{Name: o.Name, Kind: o.Kind, Assume: c.Assume, Goal: c.Goal, Func: o.Func, Expect: o.Expect, Info: o.Info}
			r := s.solveOne(d, sub)
			total += r.TimeS
			r.Paths = i + 1
			last = r
			if r.Status == "discharged" || r.Status == "fault" {
				break
			}
		}
		last.TimeS = total
		return last
	}
	if len(o.Cases) == 0 || o.Expect != "unsat" {
		return s.solveOne(d, o)
	}
	all := append([]OblCase{{Assume: o.Assume, Goal: o.Goal}}, o.Cases...)
	var agg *Result
	for i, c := range all {
		if c.Goal == "true" {
			continue
		}
		sub := &Obligation{Name: o.Name, Kind: o.Kind, Assume: c.Assume, Goal: c.Goal, Func: o.Func, Expect: o.Expect, Info: o.Info}
		r := s.solveOne(d, sub)
		if agg == nil {
			agg = r
			agg.Paths = 1
			continue
		}
		agg.Paths++
		agg.TimeS += r.TimeS
		agg.Cached = agg.Cached && r.Cached
		if r.Status != "discharged" && agg.Status == "discharged" {
			t, p := agg.TimeS, agg.Paths
			*agg = *r
			agg.TimeS, agg.Paths = t, p
			agg.Info = fmt.Sprintf("%s (path %d of %d)", o.Info, i+1, len(all))
		}
		if agg.Status != "discharged" {
			break // one failing path decides the obligation; the remaining paths are not needed
		}
	}
	if agg == nil {
		return &Result{Name: o.Name, Kind: o.Kind, Func: o.Func, Expect: o.Expect, Info: o.Info, Status: "discharged", Answer: "trivial", Solver: "syntactic"}
	}
	return agg
}

func (s *Solver) solveOne(d *Decls, o *Obligation) *Result {
	r := &Result{Name: o.Name, Kind: o.Kind, Func: o.Func, Expect: o.Expect, Info: o.Info}
	if o.Expect == "unsat" && o.Goal == "true" && len(o.Cases) == 0 {
		r.Status, r.Answer, r.Solver = "discharged", "trivial", "syntactic"
		return r
	}
	wantModel := true
	q := o.Raw
	if q == "" {
		q = d.queryObl(o, wantModel)
	}
	r.Query = q
	if len(q) > 512*1024 {
		r.Status, r.Answer = "fault", "query too large"
		return r
	}
	sum := sha256.Sum256([]byte(s.versions + "\n" + q))
	h := hex.EncodeToString(sum[:])
	cfile := ""
	if s.cacheDir != "" {
		cfile = filepath.Join(s.cacheDir, h+".json")
	}
	if s.useCache && cfile != "" {
		if data, err := os.ReadFile(cfile); err == nil {
			var ce cacheEntry
			if json.Unmarshal(data, &ce) == nil && ce.Answer != "" {
				r.Answer, r.Solver, r.TimeS, r.Model, r.Cached = ce.Answer, ce.Solver, ce.TimeS, ce.Model, true
				s.classify(r, o)
				return r
			}
		}
	}
	s.mu.Lock()
	s.seq++
	seq := s.seq
	s.mu.Unlock()
	file := filepath.Join(s.dir, fmt.Sprintf("%s-%d.smt2", h[:16], seq))
	if err := os.WriteFile(file, []byte(q), 0o644); err != nil {
		r.Status, r.Answer = "fault", err.Error()
		return r
	}
	defer os.Remove(file)
	r.Answers = map[string]string{}
	definite := func(a string) bool { return a == "unsat" || a == "sat" }
	if o.Kind == "vacuity" {
		// satisfiability probes: one solver, short timeout; "unknown" is tolerated and counted as undecided
		a, out, t := s.runOne(solvers[0], file, 3, false)
		r.Answers[solvers[0].name] = a
		r.Answer, r.Solver, r.TimeS, r.Output = a, solvers[0].name, t, out
		if a == "error" {
			r.Status, r.Info = "fault", firstLine(out)
			return r
		}
		if cfile != "" && definite(a) {
			data, _ := json.Marshal(cacheEntry{Answer: a, Solver: r.Solver, TimeS: t})
			os.WriteFile(cfile, data, 0o644)
		}
		s.classify(r, o)
		return r
	}
	if !s.all {
		// race the solvers; the first definite answer wins and the others are stopped
		type res struct {
			name, a, out string
			t            float64
		}
		ctx, cancel := context.WithCancel(context.Background())
		ch := make(chan res, len(solvers))
		for _, sp := range solvers {
			sp := sp
			go func() {
				a, out, t := s.runOneCtx(ctx, sp, file, s.timeout, wantModel)
				ch <- res{sp.name, a, out, t}
			}()
		}
		r.Answer = "unknown"
		for range solvers {
			x := <-ch
			if x.a == "cancelled" {
				continue
			}
			r.Answers[x.name] = x.a
			if definite(x.a) && !definite(r.Answer) {
				r.Answer, r.Solver, r.TimeS, r.Output = x.a, x.name, x.t, x.out
				cancel()
			} else if !definite(r.Answer) {
				if r.Answer != "timeout" {
					r.Answer = x.a
				}
				r.Solver, r.TimeS = x.name, x.t
				if x.a == "error" {
					r.Output += x.out
				}
			}
		}
		cancel()
	} else {
		type res struct {
			name, a, out string
			t            float64
		}
		// every solver runs; once one has a definite answer the others get a grace period (ten seconds or five times
		// the winner's time, whichever is longer) to agree or disagree, then they are stopped and not counted
		ctx, cancel := context.WithCancel(context.Background())
		defer cancel()
		ch := make(chan res, len(solvers))
		for _, sp := range solvers {
			sp := sp
			go func() {
				a, out, t := s.runOneCtx(ctx, sp, file, s.timeout, wantModel)
				ch <- res{sp.name, a, out, t}
			}()
		}
		r.Answer = "unknown"
		graceStarted := false
		for range solvers {
			x := <-ch
			if x.a == "cancelled" {
				r.Answers[x.name] = "stopped after the grace period"
				continue
			}
			r.Answers[x.name] = x.a
			if definite(x.a) && !graceStarted {
				graceStarted = true
				grace := 10.0
				if 5*x.t > grace {
					grace = 5 * x.t
				}
				time.AfterFunc(time.Duration(grace*float64(time.Second)), cancel)
			}
			if definite(x.a) {
				if definite(r.Answer) && r.Answer != x.a {
					r.Status = "fault"
					r.Info = fmt.Sprintf("solver disagreement: %s says %s, %s says %s", r.Solver, r.Answer, x.name, x.a)
				}
				if !definite(r.Answer) || (x.a == "sat" && x.name == "z3") {
					r.Answer, r.Solver, r.TimeS, r.Output = x.a, x.name, x.t, x.out
				}
			} else if !definite(r.Answer) {
				if x.a == "error" {
					r.Output += x.out
				}
				if r.Answer != "timeout" {
					r.Answer = x.a
				}
				r.Solver, r.TimeS = x.name, x.t
			}
		}
		if r.Status == "fault" {
			return r
		}
	}
	allErr := true
	for _, a := range r.Answers {
		if a != "error" {
			allErr = false
		}
	}
	if allErr {
		r.Status = "fault"
		r.Info = "all solvers reported an error: " + firstLine(r.Output)
		return r
	}
	if r.Answer == "sat" {
		if i := strings.Index(r.Output, "\n"); i >= 0 {
			r.Model = r.Output[i+1:]
		}
	}
	if cfile != "" && (definite(r.Answer)) {
		data, _ := json.Marshal(cacheEntry{Answer: r.Answer, Solver: r.Solver, TimeS: r.TimeS, Model: r.Model})
		os.WriteFile(cfile, data, 0o644)
	}
	s.classify(r, o)
	return r
}

func (s *Solver) classify(r *Result, o *Obligation) {
	switch o.Expect {
	case "unsat":
		if r.Answer == "unsat" {
			r.Status = "discharged"
		} else {
			r.Status = "failed"
		}
	case "sat":
		// vacuity probe: assumptions must be satisfiable; unknown is tolerated (reported), unsat is a failure
		if r.Answer == "unsat" {
			r.Status = "failed"
			r.Info = "entry assumptions are contradictory (vacuous contract)"
		} else {
			r.Status = "discharged"
		}
	case "not-unsat":
		if r.Answer == "unsat" {
			r.Status = "failed"
			r.Info = "canary 'false' was proved at a return: the path context is contradictory"
		} else {
			r.Status = "discharged"
		}
	}
}

func (s *Solver) solveAll(reports []*FuncReport, filter func(name string) bool, workers int) []*Result {
	type job struct {
		d *Decls
		o *Obligation
	}
	var jobs []job
	for _, rep := range reports {
		for _, o := range rep.Obligations {
			if filter(o.Name) {
				jobs = append(jobs, job{rep.Decls, o})
			}
		}
	}
	results := make([]*Result, len(jobs))
	var wg sync.WaitGroup
	sem := make(chan struct{}, workers)
	for i, j := range jobs {
		wg.Add(1)
		sem <- struct{}{}
		go func(i int, j job) {
			defer wg.Done()
			defer func() { <-sem }()
			results[i] = s.solve(j.d, j.o)
		}(i, j)
	}
	wg.Wait()
	// second pass: obligations that ended without a definite answer are re-run with a longer timeout and little
	// parallelism, so that a loaded machine does not turn a slow proof into an alarm (skipped when many failed)
	var again []int
	for i := range jobs {
		r := results[i]
		if r != nil && r.Status == "failed" && r.Kind != "vacuity" && (r.Answer == "timeout" || r.Answer == "unknown") {
			again = append(again, i)
		}
	}
	saved := s.timeout
	if len(again) > 0 && len(again) <= 6 {
		s.timeout = saved * 2
		var wg2 sync.WaitGroup
		sem2 := make(chan struct{}, 3)
		for _, i := range again {
			wg2.Add(1)
			sem2 <- struct{}{}
			go func(i int) {
				defer wg2.Done()
				defer func() { <-sem2 }()
				r := results[i]
				r2 := s.solve(jobs[i].d, jobs[i].o)
				r2.TimeS += r.TimeS
				r2.Info = strings.TrimSpace(r2.Info + " (second pass)")
				results[i] = r2
			}(i)
		}
		wg2.Wait()
	}
	s.timeout = saved
	return results
}
