package main

// Maps, channels, defer/recover, goroutines, select. (Stage 5/6 features; stubs report "unsupported" until built.)

import (
	"go/ast"
	"go/types"
)

func (fx *Fx) mapGet(st *State, mv Val, m *types.Map, k Val) Val { panic(unsupported("map read")) }
func (fx *Fx) mapHas(st *State, mv Val, m *types.Map, k Val) string {
	panic(unsupported("map membership"))
}
func (fx *Fx) mapLen(st *State, mv Val, m *types.Map) string { panic(unsupported("map len")) }
func (fx *Fx) mapSet(st *State, mv Val, m *types.Map, k, v Val, what string) {
	panic(unsupported("map write"))
}
func (fx *Fx) mapDelete(st *State, mv Val, m *types.Map, k Val) { panic(unsupported("map delete")) }
func (fx *Fx) newMap(st *State, t types.Type, m *types.Map) Val  { panic(unsupported("map allocation")) }
func (fx *Fx) execRangeMap(st *State, x *ast.RangeStmt, m *types.Map, label string) []Outcome {
	panic(unsupported("range over map"))
}
func (fx *Fx) newChan(st *State, t types.Type, capT string) Val { panic(unsupported("make(chan)")) }
func (fx *Fx) chanClose(st *State, c Val, what string)         { panic(unsupported("close")) }
func (fx *Fx) chanRecv(st *State, x *ast.UnaryExpr, spec bool) Val {
	panic(unsupported("channel receive"))
}
func (fx *Fx) chanRecv2(st *State, x *ast.UnaryExpr) []Val { panic(unsupported("channel receive")) }
func (fx *Fx) havocChans(st *State)                         {}
func (fx *Fx) recoverCall(st *State) Val                    { panic(unsupported("recover")) }
func (fx *Fx) execDefer(st *State, x *ast.DeferStmt) []Outcome {
	panic(unsupported("defer"))
}
func (fx *Fx) execGo(st *State, x *ast.GoStmt) []Outcome { panic(unsupported("go statement")) }
func (fx *Fx) execSelect(st *State, x *ast.SelectStmt) []Outcome {
	panic(unsupported("select"))
}
func (fx *Fx) execSend(st *State, x *ast.SendStmt) []Outcome { panic(unsupported("send")) }
