package main

// Maps, channels, defer/recover, goroutines, select. (Stage 5/6 features; stubs report "unsupported" until built.)

import (
	"fmt"
	"go/ast"
	"go/token"
	"go/types"
	"strings"
)

// ---------- maps ----------
// A map value is a reference (nil or allocated) into a heap of map cells {dom, val, size}.

func (fx *Fx) mapSort(m *types.Map) (cell, ks, vs string) {
	ks, vs = fx.d.sortOf(m.Key()), fx.d.sortOf(m.Elem())
	cell = "Map_" + sanitize(ks) + "_" + sanitize(vs)
	fx.d.ensureSort(cell, fmt.Sprintf("(declare-datatypes ((%s 0)) (((mk_%s (dom_%s (Array %s Bool)) (val_%s (Array %s %s)) (size_%s Int)))))", cell, cell, cell, ks, cell, ks, vs, cell))
	return
}

func (fx *Fx) mapCell(st *State, mv Val, m *types.Map) (cellTerm, cell string) {
	cell, _, _ = fx.mapSort(m)
	h := fx.heapTerm(st, "map_"+cell, cell)
	c := app("select", h, mv.X)
	if fx.inQuant == 0 && !strings.Contains(c, "(ite ") {
		// facts true of every Go map: size counts the domain
		st.assume(app("<=", "0", app("size_"+cell, c)))
		_, ks, _ := fx.mapSort(m)
		st.assume(fmt.Sprintf("(forall ((k %s)) (! (=> (select (dom_%s %s) k) (> (size_%s %s) 0)) :pattern ((select (dom_%s %s) k))))", ks, cell, c, cell, c, cell, c))
	}
	return c, cell
}

func (fx *Fx) mapHas(st *State, mv Val, m *types.Map, k Val) string {
	c, cell := fx.mapCell(st, mv, m)
	return and(not(app("=", mv.X, "nil")), app("select", app("dom_"+cell, c), k.X))
}

func (fx *Fx) mapGet(st *State, mv Val, m *types.Map, k Val) Val {
	c, cell := fx.mapCell(st, mv, m)
	_, _, vs := fx.mapSort(m)
	has := and(not(app("=", mv.X, "nil")), app("select", app("dom_"+cell, c), k.X))
	return fx.loaded(st, Val{T: m.Elem(), S: vs, X: fx.share(ite(has, app("select", app("val_"+cell, c), k.X), fx.d.zeroOf(m.Elem())), vs)})
}

func (fx *Fx) mapLen(st *State, mv Val, m *types.Map) string {
	c, cell := fx.mapCell(st, mv, m)
	return ite(app("=", mv.X, "nil"), "0", app("size_"+cell, c))
}

func (fx *Fx) mapStoreCell(st *State, mv Val, cell, nc string) {
	h := fx.heapTerm(st, "map_"+cell, cell)
	st.heap["map_"+cell] = fx.share(app("store", h, mv.X, fx.share(nc, cell)), "(Array Ref "+cell+")")
}

func (fx *Fx) mapSet(st *State, mv Val, m *types.Map, k, v Val, what string) {
	if fx.inSpec == 0 {
		g := not(app("=", mv.X, "nil"))
		fx.oblige(st, "nil", "mapwrite("+what+")", g, "assignment to an entry of a nil map panics")
		st.assume(g)
	}
	fx.guardMapWrite(st, mv, what)
	c, cell := fx.mapCell(st, mv, m)
	dom, val, size := app("dom_"+cell, c), app("val_"+cell, c), app("size_"+cell, c)
	nsize := ite(app("select", dom, k.X), size, app("+", size, "1"))
	fx.mapStoreCell(st, mv, cell, app("mk_"+cell, app("store", dom, k.X, "true"), app("store", val, k.X, v.X), nsize))
}

func (fx *Fx) mapDelete(st *State, mv Val, m *types.Map, k Val) {
	fx.guardMapWrite(st, mv, "delete")
	c, cell := fx.mapCell(st, mv, m)
	dom, val, size := app("dom_"+cell, c), app("val_"+cell, c), app("size_"+cell, c)
	nsize := ite(app("select", dom, k.X), app("-", size, "1"), size)
	nc := app("mk_"+cell, app("store", dom, k.X, "false"), val, nsize)
	if fx.inQuant == 0 {
		// cardinality: while another key is present, the size after the deletion is still positive
		_, ks, _ := fx.mapSort(m)
		st.assume(fmt.Sprintf("(forall ((k %s)) (! (=> (and (not (= k %s)) (select %s k)) (> %s 0)) :pattern ((select %s k))))", ks, k.X, dom, nsize, dom))
	}
	// deleting from a nil map is a no-op
	h := fx.heapTerm(st, "map_"+cell, cell)
	st.heap["map_"+cell] = fx.share(ite(app("=", mv.X, "nil"), h, app("store", h, mv.X, fx.share(nc, cell))), "(Array Ref "+cell+")")
}

func (fx *Fx) newMap(st *State, t types.Type, m *types.Map) Val {
	cell, ks, vs := fx.mapSort(m)
	r := fx.alloc(st, "map")
	empty := app("mk_"+cell, fmt.Sprintf("((as const (Array %s Bool)) false)", ks), fx.d.freshConst("mapval", fmt.Sprintf("(Array %s %s)", ks, vs)), "0")
	mv := Val{T: t, S: SRef, X: r}
	fx.mapStoreCell(st, mv, cell, empty)
	return mv
}

// execRangeMap: iteration over a map in an arbitrary order. Ghost set visited<ord>: keys already produced.
// Each iteration produces a key that is in the map now and has not been produced; the loop ends when every key
// that is in the map now and was in it at the start has been produced (Go: removed entries are not produced,
// added entries may or may not be).
func (fx *Fx) execRangeMap(st *State, x *ast.RangeStmt, m *types.Map, label string) []Outcome {
	var outs []Outcome
	mv := fx.eval(st, x.X, false)
	cell, ks, _ := fx.mapSort(m)
	ls, ord := fx.loopSpec(x)
	vname := fmt.Sprintf("visited%d", ord)
	vsort := fmt.Sprintf("(Array %s Bool)", ks)
	c0, _ := fx.mapCell(st, mv, m)
	dom0 := fx.share(app("dom_"+cell, c0), vsort)
	st.ghost[vname] = Val{S: vsort, X: fmt.Sprintf("((as const %s) false)", vsort)}
	st.ghost[fmt.Sprintf("callatkey%d", ord)] = Val{S: fmt.Sprintf("(Array %s Int)", ks), X: fx.d.freshConst(fmt.Sprintf("callatkey%d", ord), fmt.Sprintf("(Array %s Int)", ks))}
	st.ghost[fmt.Sprintf("dom0_%d", ord)] = Val{S: vsort, X: dom0}
	fx.checkInvariants(st, ls, ord, "inv-init")
	ws := fx.collectWrites([]ast.Node{x.Body}, st)
	for _, e := range []ast.Expr{x.Key, x.Value} {
		if id, ok := e.(*ast.Ident); ok && id.Name != "_" {
			if o := fx.pkg.info.ObjectOf(id); o != nil {
				delete(ws.vars, o)
			}
		}
	}
	gname := fmt.Sprintf("callatkey%d", ord)
	gsort := fmt.Sprintf("(Array %s Int)", ks)
	fx.havoc(st, ws)
	st.ghost[gname] = Val{S: gsort, X: fx.d.freshConst(gname, gsort)}
	for _, gn := range sortedKeys(st.ghost) {
		if strings.HasPrefix(gn, gname+"_") {
			st.ghost[gn] = Val{S: gsort, X: fx.d.freshConst(gn, gsort)}
		}
	}
	visited := fx.d.freshConst(vname, vsort)
	st.ghost[vname] = Val{S: vsort, X: visited}
	fx.assumeInvariants(st, ls)
	curDom := func(s *State) string {
		c, _ := fx.mapCell(s, mv, m)
		return app("dom_"+cell, c)
	}
	nonNil := not(app("=", mv.X, "nil"))
	// exit
	exit := st.clone()
	exit.assume(implies(nonNil, fmt.Sprintf("(forall ((k %s)) (! (=> (and (select %s k) (select %s k)) (select %s k)) :pattern ((select %s k))))", ks, curDom(exit), dom0, visited, visited)))
	outs = append(outs, Outcome{st: exit, kind: kNormal})
	// one iteration with an arbitrary not yet produced key
	body := st
	key := fx.freshVal(body, "rangekey", m.Key())
	body.assume(nonNil)
	body.assume(app("select", curDom(body), key.X))
	body.assume(not(app("select", visited, key.X)))
	body.ghost[vname] = Val{S: vsort, X: fx.share(app("store", visited, key.X, "true"), vsort)}
	define := x.Tok == token.DEFINE
	if x.Key != nil {
		if p, ok := fx.lhsPlace(body, x.Key, define); ok {
			fx.assignTo(body, p, key)
		}
	}
	if x.Value != nil {
		if p, ok := fx.lhsPlace(body, x.Value, define); ok {
			fx.assignTo(body, p, fx.mapGet(body, mv, m, key))
		}
	}
	savedKey, savedSort, savedOrd := body.rangeKey, body.rangeKeySort, body.rangeOrd
	body.rangeKey, body.rangeKeySort, body.rangeOrd = key.X, ks, ord
	bodyOuts := fx.exec(body, x.Body)
	for _, o := range bodyOuts {
		o.st.rangeKey, o.st.rangeKeySort, o.st.rangeOrd = savedKey, savedSort, savedOrd
	}
	for _, o := range bodyOuts {
		switch {
		case o.kind == kNormal || (o.kind == kContinue && (o.label == "" || o.label == label)):
			fx.checkInvariants(o.st, ls, ord, "inv-step")
		case o.kind == kBreak && (o.label == "" || o.label == label):
			outs = append(outs, Outcome{st: o.st, kind: kNormal})
		default:
			outs = append(outs, o)
		}
	}
	return outs
}

// ---------- channels (ghost state {closed, cap, buffered}), select, go ----------

const chanSort = "GChan"

func (fx *Fx) chanCell(st *State, c string) string {
	fx.d.ensureSort(chanSort, "(declare-datatypes ((GChan 0)) (((mk_GChan (ch_closed Bool) (ch_cap Int) (ch_buffered Int)))))")
	h := fx.heapTerm(st, "ghost_chan", chanSort)
	return app("select", h, c)
}

func (fx *Fx) chanStore(st *State, c, cell string) {
	h := fx.heapTerm(st, "ghost_chan", chanSort)
	st.heap["ghost_chan"] = fx.share(app("store", h, c, cell), "(Array Ref "+chanSort+")")
}

func (fx *Fx) newChan(st *State, t types.Type, capT string) Val {
	r := fx.alloc(st, "chan")
	fx.chanCell(st, r)
	fx.chanStore(st, r, app("mk_GChan", "false", capT, "0"))
	return Val{T: t, S: SRef, X: r}
}

func (fx *Fx) chanClose(st *State, c Val, what string) {
	cell := fx.chanCell(st, c.X)
	g := and(not(app("=", c.X, "nil")), not(app("ch_closed", cell)))
	fx.oblige(st, "chan", "close("+what+")", g, "close of a nil or already closed channel panics")
	st.assume(g)
	fx.chanStore(st, c.X, app("mk_GChan", "true", app("ch_cap", cell), app("ch_buffered", cell)))
	fx.assumed["Go channel semantics: a channel closed once stays closed; an unbuffered send completes together with its receive"] = true
}

func (fx *Fx) execSend(st *State, x *ast.SendStmt) []Outcome {
	c := fx.eval(st, x.Chan, false)
	v := fx.eval(st, x.Value, false)
	if ct, ok := c.T.Underlying().(*types.Chan); ok {
		v = fx.coerce(st, v, ct.Elem())
	}
	fx.checkChanInvariantExpr(st, x.Chan, v)
	if se, ok := ast.Unparen(x.Chan).(*ast.SelectorExpr); ok && fx.v.fieldNeverClosed(se.Sel.Name) {
		// no close(x.<field>) anywhere in the packages: a send on this channel cannot hit a closed channel
		fx.note("channel field " + se.Sel.Name + " is never closed (syntactic scan of the packages): sends on it carry no closed-channel obligation")
		cell := fx.chanCell(st, c.X)
		st.assume(not(app("ch_closed", cell)))
	}
	if !fx.selectComm {
		// a plain send on a buffered channel that is full blocks this goroutine until somebody receives: the reply
		// channels of the library are buffered precisely so that the sender never waits
		cell := fx.chanCell(st, c.X)
		fx.oblige(st, "chan", "room("+exprText(x.Chan)+")", or(app("=", app("ch_cap", cell), "0"), app("<", app("ch_buffered", cell), app("ch_cap", cell))), "a plain send on a full buffered channel blocks the sender")
	}
	fx.chanSend(st, c, v, exprText(x.Chan))
	fx.traceChanOp(st, "chansend", c)
	return normal(st)
}

func (fx *Fx) chanSend(st *State, c, v Val, what string) {
	cell := fx.chanCell(st, c.X)
	g := not(app("ch_closed", cell))
	fx.oblige(st, "chan", "send("+what+")", g, "send on a closed channel panics")
	st.assume(g)
	// message invariant of the channel, if one is declared: proved here, assumed at the receive
	fx.checkChanInvariant(st, c, v, what)
	buffered := app("ch_buffered", cell)
	fx.chanStore(st, c.X, app("mk_GChan", "false", app("ch_cap", cell), ite(app("<", buffered, app("ch_cap", cell)), app("+", buffered, "1"), buffered)))
	fx.assumed["Go channel semantics: a channel closed once stays closed; an unbuffered send completes together with its receive"] = true
}

// checkChanInvariant / assumeChanInvariant: see conc.go
func (fx *Fx) chanRecv(st *State, x *ast.UnaryExpr, spec bool) Val {
	return fx.chanRecv2(st, x)[0]
}

func (fx *Fx) chanRecv2(st *State, x *ast.UnaryExpr) []Val {
	c := fx.eval(st, x.X, false)
	ct, _ := c.T.Underlying().(*types.Chan)
	var et types.Type = types.NewStruct(nil, nil)
	if ct != nil {
		et = ct.Elem()
	}
	v := fx.freshVal(st, "recv", et)
	if v.S == SRef {
		fx.older(st, v.X)
	}
	ok := fx.d.freshConst("recvok", SBool)
	cell := fx.chanCell(st, c.X)
	// a value is received (ok) or the channel is closed and drained (!ok => closed)
	st.assume(implies(not(ok), app("ch_closed", cell)))
	fx.noteCtxDone(st, c)
	fx.assumeChanInvariantExpr(st, x.X, v, ok)
	fx.traceChanOpVal(st, "chanrecv", c, v, ok)
	return []Val{v, {T: types.Typ[types.Bool], S: SBool, X: ok}}
}

func (fx *Fx) havocChans(st *State) {
	if _, ok := st.heap["ghost_chan"]; ok {
		fx.chanCell(st, "nil")
		st.heap["ghost_chan"] = fx.d.freshConst("H_ghost_chan", "(Array Ref "+chanSort+")")
	}
}

func (fx *Fx) execGo(st *State, x *ast.GoStmt) []Outcome {
	// the spawned function runs under its own contract: its precondition must hold at the go statement
	if key, fd, recvExpr := fx.calleeOf(x.Call); key != "" && fd != nil {
		if spec := fx.v.contracts.Funcs[key]; spec != nil {
			var recv *Val
			if recvExpr != nil {
				rp := fx.evalPlace(st, recvExpr, false)
				rv := fx.receiverValue(st, rp, fd.obj.Type().(*types.Signature), exprText(recvExpr), false)
				recv = &rv
			}
			var args []Val
			for _, a := range x.Call.Args {
				args = append(args, fx.eval(st, a, false))
			}
			bind := fx.specBindings(fd, spec, recv, args)
			for _, r := range spec.Requires {
				g := fx.specEval(st, fd.pkg, bind, nil, r.Expr)
				fx.oblige(st, "pre", fmt.Sprintf("go %s:%s", key, r.Label), g, r.Text)
			}
			fx.note("go statements are not executed: the spawned function is verified as its own entry point under its precondition, which is proved at the go statement")
			return normal(st)
		}
	}
	for _, a := range x.Call.Args {
		fx.eval(st, a, false)
	}
	fx.note("go statements are not executed: the spawned function is verified as its own entry point")
	return normal(st)
}

// execSelect: a nondeterministic choice among the communication cases (every ready case may be taken).
func (fx *Fx) execSelect(st *State, x *ast.SelectStmt) []Outcome {
	var outs []Outcome
	for _, cl := range x.Body.List {
		cc := cl.(*ast.CommClause)
		br := st.clone()
		br.ghost["selcase"] = Val{S: SInt, X: fmt.Sprint(selIdx(x, cl))}
		cur := []Outcome{{st: br, kind: kNormal}}
		if cc.Comm != nil {
			fx.selectComm = true
			cur = fx.exec(br, cc.Comm)
			fx.selectComm = false
		}
		for _, o := range cur {
			if o.kind != kNormal {
				outs = append(outs, o)
				continue
			}
			for _, bo := range fx.execBlock(o.st, cc.Body) {
				if bo.kind == kBreak && bo.label == "" {
					bo.kind = kNormal
				}
				outs = append(outs, bo)
			}
		}
	}
	fx.assumed["select: any case may be taken (no fairness, no blocking analysis)"] = true
	return outs
}

func selIdx(x *ast.SelectStmt, cl ast.Stmt) int {
	for i, c := range x.Body.List {
		if c == cl {
			return i
		}
	}
	return -1
}

func (fx *Fx) traceChanOpVal(st *State, op string, c, v Val, ok string) {
	if fx.rootSpec == nil || !fx.rootSpec.TraceChans {
		return
	}
	fx.v.colSorts["arg_"+op+"_0"] = SRef
	args := []Val{c}
	if v.S == SRef {
		fx.v.colSorts["arg_"+op+"_1"] = SRef
		// a receive from a closed, drained channel yields the zero value
		args = append(args, Val{S: SRef, X: ite(ok, v.X, "nil")})
		st.assume(implies(not(ok), app("=", v.X, "nil")))
	}
	fx.abstractCallQuiet(st, c.X, op, args)
}

// traceChanOp records channel operations of functions that ask for it (spec flag traced-chans) in the ghost trace.
func (fx *Fx) traceChanOp(st *State, op string, c Val) {
	if fx.rootSpec == nil || !fx.rootSpec.TraceChans {
		return
	}
	fx.v.colSorts["arg_"+op+"_0"] = SRef
	fx.abstractCallQuiet(st, c.X, op, []Val{c})
}
