package main

import (
	"go/ast"
	"go/types"
	"encoding/json"
	"flag"
	"fmt"
	"os"
	"path/filepath"
	"regexp"
	"sort"
	"strconv"
	"strings"
	"time"
)

type KnownFinding struct {
	Property   string `json:"property"`
	Obligation string `json:"obligation"`
	What       string `json:"what"`
	Status     string `json:"status"` // "known" or "fixed"
	Commit     string `json:"commit,omitempty"`
}

// engineLemmas: every lemma the SMT preamble states as an axiom is proved here from the definitions alone, on every run.
func engineLemmas() *FuncReport {
	ring := `(set-logic ALL)
(declare-fun ringidx (Int Int Int) Int)
(assert (forall ((h Int) (l Int) (k Int)) (! (= (ringidx h l k) (ite (< (+ h k) l) (+ h k) (- (+ h k) l))) :pattern ((ringidx h l k)))))
(declare-const h Int)
(declare-const l Int)
(declare-const a Int)
(declare-const b Int)
(assert (and (<= 0 h) (< h l) (<= 0 a) (<= 0 b) (<= (+ a b) l)))
(assert (not (= (ringidx (ringidx h l a) l b) (ringidx h l (+ a b)))))
(check-sat)
`
	return &FuncReport{Key: "engine.lemma", Decls: newDecls(), Obligations: []*Obligation{
		{Name: "engine.lemma/ring_compose", Kind: "lemma", Func: "engine.lemma", Expect: "unsat", Raw: ring, Goal: "lemma",
			Info: "ringidx(ringidx(h,l,a),l,b) == ringidx(h,l,a+b): the composition axiom of the preamble follows from the definition"},
	}}
}

func readPropMap(path string) (map[string][]string, error) {
	m := map[string][]string{}
	data, err := os.ReadFile(path)
	if err != nil {
		return nil, err
	}
	cur := ""
	for _, line := range strings.Split(string(data), "\n") {
		line = strings.TrimSpace(line)
		if line == "" || strings.HasPrefix(line, "#") {
			continue
		}
		if i := strings.Index(line, ":"); i > 0 && !strings.Contains(line[:i], "/") && !strings.Contains(line[:i], ".") {
			cur = strings.TrimSpace(line[:i])
			line = strings.TrimSpace(line[i+1:])
		}
		for _, p := range strings.Split(line, ",") {
			if p = strings.TrimSpace(p); p != "" && cur != "" {
				m[cur] = append(m[cur], p)
			}
		}
	}
	return m, nil
}

func main() {
	repo := flag.String("repo", "/repo", "repository root")
	prop := flag.String("prop", "", "property id")
	tier := flag.String("tier", "quick", "quick|thorough")
	verifDir := flag.String("verif", "/verif", "verif directory")
	funcsFlag := flag.String("funcs", "", "comma-separated function keys to verify (debug)")
	dump := flag.String("dump", "", "directory to dump all queries into (debug)")
	listFlag := flag.Bool("list", false, "list obligations only")
	callsFlag := flag.Bool("calls", false, "print 'caller callee' for every call between functions of the library that have a contract (used by tools/closemap.py)")
	verbose := flag.Bool("v", false, "print every obligation with its answer and time")
	noCache := flag.Bool("nocache", false, "disable the result cache")
	writeBase := flag.Bool("writebaseline", false, "record the generated obligation names of this property in obligations.baseline.json")
	flag.Parse()
	seed := int64(0)
	if s := os.Getenv("VERIF_SEED"); s != "" {
		seed, _ = strconv.ParseInt(s, 10, 64)
	}
	if t := os.Getenv("VERIF_TIER"); t != "" && *tier == "" {
		*tier = t
	}
	t0 := time.Now()
	v, err := loadRepo(*repo)
	if err != nil {
		fmt.Println("ENGINE-FAULT load:", err)
		os.Exit(2)
	}
	if *callsFlag {
		// static call edges between library functions (a function literal counts as its own function, keyed parent$N,
		// and is also an edge parent -> literal)
		for key, fd := range v.decls {
			if fd.decl.Body == nil {
				continue
			}
			seen := map[string]bool{}
			// every mention of a library function counts: calls, and function or method values handed on (backoff.reset)
			ast.Inspect(fd.decl.Body, func(n ast.Node) bool {
				id, ok := n.(*ast.Ident)
				if !ok {
					return true
				}
				if fn, ok := fd.pkg.info.Uses[id].(*types.Func); ok {
					fn = fn.Origin()
					if fn.Pkg() != nil && v.pkgByTypes[fn.Pkg()] != nil {
						k := v.funcKey(fn)
						if !seen[k] {
							seen[k] = true
							fmt.Printf("%s %s\n", key, k)
						}
					}
				}
				return true
			})
		}
		for key := range v.contracts.Funcs {
			if i := strings.LastIndex(key, "$"); i > 0 {
				fmt.Printf("%s %s\n", key[:i], key)
			}
		}
		return
	}
	propMap, err := readPropMap(filepath.Join(*verifDir, "properties.map"))
	if err != nil && *funcsFlag == "" {
		fmt.Println("ENGINE-FAULT properties.map:", err)
		os.Exit(2)
	}
	var patterns []string
	if *prop != "" {
		patterns = propMap[*prop]
		if len(patterns) == 0 && *funcsFlag == "" {
			fmt.Printf("ENGINE-FAULT no obligation patterns for property %s\n", *prop)
			os.Exit(2)
		}
	}
	// functions to verify
	keys := map[string]bool{}
	if *funcsFlag != "" {
		for _, k := range strings.Split(*funcsFlag, ",") {
			keys[strings.TrimSpace(k)] = true
			patterns = append(patterns, strings.TrimSpace(k)+"/*")
		}
	} else {
		for _, p := range patterns {
			fpat := p
			if i := strings.Index(p, "/"); i >= 0 {
				fpat = p[:i]
			}
			matched := false
			for k, spec := range v.contracts.Funcs {
				if globMatch(fpat, k) && !spec.Trusted && !strings.Contains(k, ".@") {
					keys[k] = true
					matched = true
				}
			}
			if !matched && !strings.Contains(fpat, "*") {
				keys[fpat] = true // will be reported as missing
			}
		}
	}
	var keyList []string
	for k := range keys {
		keyList = append(keyList, k)
	}
	sort.Strings(keyList)
	var reports []*FuncReport
	for _, k := range keyList {
		reports = append(reports, v.verifyFunc(k))
	}
	reports = append(reports, engineLemmas())
	match := func(name string) bool {
		if strings.HasPrefix(name, "engine.lemma/") {
			return true
		}
		for _, p := range patterns {
			if globMatch(p, name) {
				return true
			}
			// vacuity probes of a function are part of every property that uses the function
			if i := strings.Index(name, "/vacuity:"); i >= 0 {
				fpat := p
				if j := strings.Index(p, "/"); j >= 0 {
					fpat = p[:j]
				}
				if globMatch(fpat, name[:i]) {
					return true
				}
			}
		}
		return false
	}
	if *listFlag {
		for _, rep := range reports {
			if rep.Unsupported != "" {
				fmt.Printf("%s: UNSUPPORTED %s\n", rep.Key, rep.Unsupported)
			}
			for _, o := range rep.Obligations {
				if match(o.Name) {
					fmt.Println(o.Name)
				}
			}
		}
		return
	}
	cache := filepath.Join(*verifDir, ".cache")
	if *noCache {
		cache = ""
	}
	solver, err := newSolver(*tier, cache)
	if err != nil {
		fmt.Println("ENGINE-FAULT solver:", err)
		os.Exit(2)
	}
	defer solver.close()
	results := solver.solveAll(reports, match, 16)
	if *verbose {
		for _, r := range results {
			fmt.Printf("  %-9s %-8s %6.2fs %s %v\n", r.Status, r.Answer, r.TimeS, r.Name, r.Answers)
		}
	}
	if *dump != "" {
		os.MkdirAll(*dump, 0o755)
		for _, r := range results {
			os.WriteFile(filepath.Join(*dump, sanitize(r.Name)+".smt2"), []byte(r.Query), 0o644)
		}
	}
	if *writeBase && *prop != "" {
		path := filepath.Join(*verifDir, "obligations.baseline.json")
		base := map[string][]string{}
		if data, err := os.ReadFile(path); err == nil {
			json.Unmarshal(data, &base)
		}
		var names []string
		for _, r := range results {
			if r != nil && r.Kind != "vacuity" {
				names = append(names, r.Name)
			}
		}
		sort.Strings(names)
		base[*prop] = names
		data, _ := json.MarshalIndent(base, "", " ")
		os.WriteFile(path, data, 0o644)
	}
	code := report(v, *prop, *tier, seed, *verifDir, reports, results, solver, time.Since(t0), patterns)
	solver.close()
	os.Exit(code)
}

func report(v *Verifier, prop, tier string, seed int64, verifDir string, reports []*FuncReport, results []*Result, solver *Solver, wall time.Duration, patterns []string) int {
	known := []KnownFinding{}
	if data, err := os.ReadFile(filepath.Join(verifDir, "known_findings.json")); err == nil {
		json.Unmarshal(data, &known)
	}
	isKnown := func(name string) *KnownFinding {
		for i := range known {
			k := &known[i]
			if k.Status == "known" && k.Property == prop && k.Obligation == name {
				return k
			}
		}
		return nil
	}
	var violations []string
	faults := 0
	discharged, total := 0, 0
	var funcs, dropped, assumed, publicPre []string
	seenA, seenD := map[string]bool{}, map[string]bool{}
	replayDir := filepath.Join(verifDir, "replays")
	for _, rep := range reports {
		funcs = append(funcs, rep.Key)
		for _, d := range rep.Dropped {
			if !seenD[d] {
				seenD[d] = true
				dropped = append(dropped, d)
			}
		}
		for _, a := range rep.Assumed {
			if !seenA[a] {
				seenA[a] = true
				assumed = append(assumed, a)
			}
		}
		publicPre = append(publicPre, rep.PublicPre...)
		if rep.Unsupported != "" {
			name := rep.Key + "/unsupported"
			total++
			msg := strings.SplitN(rep.Unsupported, "\n", 2)[0]
			path := writeReplay(replayDir, prop, name, "obligations of "+rep.Key+" could not be generated: "+rep.Unsupported, "", "")
			if strings.HasPrefix(rep.Unsupported, "engine panic") {
				fmt.Printf("ENGINE-FAULT %s: %s\n", rep.Key, msg)
				faults++
				continue
			}
			if k := isKnown(name); k != nil {
				fmt.Printf("KNOWN-FINDING: property=%s %s\n", prop, k.What)
				continue
			}
			fmt.Printf("  undischarged %s: %s\n", name, msg)
			violations = append(violations, fmt.Sprintf("VIOLATION property=%s replay=%s no-failing-input-found", prop, path))
		}
	}
	repByKey := map[string]*FuncReport{}
	for _, rep := range reports {
		repByKey[rep.Key] = rep
	}
	replays := 0
	var perObl []map[string]any
	var samples []any
	knownSeen := map[string]bool{}
	vac := map[string]int{"pre_sat": 0, "canaries_ok": 0, "failed": 0}
	for _, r := range results {
		if r == nil {
			continue
		}
		total++
		entry := map[string]any{"name": r.Name, "solver": r.Solver, "result": r.Answer, "time_s": round3(r.TimeS), "status": r.Status}
		if r.Cached {
			entry["cached"] = true
		}
		perObl = append(perObl, entry)
		if r.Kind == "vacuity" {
			if r.Status == "discharged" {
				if strings.Contains(r.Name, "vacuity:pre") {
					vac["pre_sat"]++
				} else {
					vac["canaries_ok"]++
				}
				if r.Answer != "sat" {
					vac["undecided"]++
				}
			} else {
				vac["failed"]++
			}
		}
		switch r.Status {
		case "discharged":
			discharged++
			if len(samples) < 3 && r.Kind == "post" && r.Query != "" {
				q := r.Query
				if i := strings.Index(q, "(declare-datatypes"); i > 0 {
					q = q[i:]
				} else if i := strings.LastIndex(q, preambleTail); i > 0 {
					q = q[i+len(preambleTail):]
				}
				if len(q) > 6000 {
					q = q[len(q)-6000:]
				}
				samples = append(samples, map[string]any{"obligation": r.Name, "answer": r.Answer, "solver": r.Solver, "smt_tail": q})
			}
		case "fault":
			faults++
			fmt.Printf("ENGINE-FAULT %s: %s %s\n", r.Name, r.Answer, r.Info)
		case "failed":
			if k := isKnown(r.Name); k != nil {
				if !knownSeen[r.Name] {
					knownSeen[r.Name] = true
					fmt.Printf("KNOWN-FINDING: property=%s %s\n", prop, k.What)
				}
				discharged++ // accounted for by the known-findings file; listed separately in the evidence
				entry["status"] = "known-finding"
				continue
			}
			what := fmt.Sprintf("obligation %s failed: solver answer %s (%s). %s", r.Name, r.Answer, r.Solver, r.Info)
			suffix := " no-failing-input-found"
			replayText := ""
			if r.Answer == "sat" && replays < 2 {
				replays++
				wd, _ := os.MkdirTemp("", "govc-replay-")
				text, confirmed, why := v.tryReplay(repByKey[r.Func], r, wd)
				os.RemoveAll(wd)
				replayText = text
				if confirmed {
					suffix = ""
					what += "\nThe verifier's counterexample was replayed on the real code and the failure reproduces (test below)."
				} else {
					what += "\nCounterexample replay: " + why + "."
				}
			}
			path := writeReplay(replayDir, prop, r.Name, what, r.Model, r.Query)
			if replayText != "" {
				f, _ := os.OpenFile(path, os.O_APPEND|os.O_WRONLY, 0o644)
				f.WriteString("\n" + replayText + "\n--- go helper ---\n" + strings.Replace(evalHelperSrc, "PKGNAME", pkgNameOf(v, r.Func), 1) + "\n--- end go helper ---\n")
				f.Close()
			}
			fmt.Printf("  failed %s: %s by %s %s\n", r.Name, r.Answer, r.Solver, r.Info)
			violations = append(violations, fmt.Sprintf("VIOLATION property=%s replay=%s%s", prop, path, suffix))
		}
	}
	if len(samples) == 0 {
		for _, r := range results {
			if r != nil && r.Status == "discharged" {
				samples = append(samples, map[string]any{"obligation": r.Name, "answer": r.Answer, "solver": r.Solver})
				if len(samples) >= 3 {
					break
				}
			}
		}
	}
	// baseline: obligations that existed on the unchanged tree must still exist
	missing := checkBaseline(verifDir, prop, results, reports)
	for _, m := range missing {
		total++
		path := writeReplay(replayDir, prop, m, "obligation "+m+" is part of the committed baseline for this property but was not generated from the current source", "", "")
		fmt.Printf("  missing obligation %s\n", m)
		violations = append(violations, fmt.Sprintf("VIOLATION property=%s replay=%s no-failing-input-found", prop, path))
	}
	sort.Strings(funcs)
	var knownList []string
	for k := range knownSeen {
		knownList = append(knownList, k)
	}
	sort.Strings(knownList)
	trusted := []string{"govc (this VC generator: go/ast+go/types translation to SMT-LIB)", "SMT solvers: " + solver.versions, "go/types, go/packages (x/tools v0.29.0)",
		"machine integers are mathematical integers (uint64 wrap-around modelled; no overflow obligations on int/int64)"}
	trusted = append(trusted, assumed...)
	ev := map[string]any{
		"property_id": prop,
		"tier":        tier,
		"seed":        seed,
		"level":       "proof",
		"wall_s":      round3(wall.Seconds()),
		"violations":  len(violations),
		"assumptions": assumed,
		"coverage": map[string]any{
			"obligations":               total,
			"discharged":                discharged,
			"checker_cmd":               fmt.Sprintf("/verif/bin/govc -repo /repo -prop %s -tier %s", prop, tier),
			"trusted_base":              trusted,
			"functions_under_contract":  funcs,
			"per_obligation":            perObl,
			"solver_time_s":             round3(solver.solverS),
			"samples":                   samples,
			"dropped_by_translation":    dropped,
			"public_preconditions":      publicPre,
			"vacuity":                   vac,
			"known_findings_reproduced": knownList,
			"obligation_patterns":       patterns,
			"engine_faults":             faults,
		},
	}
	if prop != "" {
		os.MkdirAll(filepath.Join(verifDir, "evidence"), 0o755)
		data, _ := json.MarshalIndent(ev, "", " ")
		os.WriteFile(filepath.Join(verifDir, "evidence", prop+".json"), data, 0o644)
	}
	fmt.Printf("property=%s tier=%s functions=%d obligations=%d discharged=%d failed=%d faults=%d solver_s=%.1f wall_s=%.1f\n",
		prop, tier, len(funcs), total, discharged, len(violations), faults, solver.solverS, wall.Seconds())
	for _, vl := range violations {
		fmt.Println(vl)
	}
	if len(violations) > 0 {
		return 1
	}
	if faults > 0 {
		return 2
	}
	return 0
}

var splitSuffix = regexp.MustCompile(`(\.\d+)+$`)

func baseLabel(name string) string { return splitSuffix.ReplaceAllString(name, "") }

const preambleTail = "(declare-fun ringidx (Int Int Int) Int)\n"

func pkgNameOf(v *Verifier, key string) string {
	if fd := v.decls[key]; fd != nil {
		return fd.pkg.name
	}
	return "sse"
}

func round3(x float64) float64 { return float64(int64(x*1000+0.5)) / 1000 }

func writeReplay(dir, prop, obligation, what, model, query string) string {
	os.MkdirAll(dir, 0o755)
	name := filepath.Join(dir, prop+"_"+sanitize(obligation)+".txt")
	var b strings.Builder
	fmt.Fprintf(&b, "property: %s\nobligation: %s\n%s\n", prop, obligation, what)
	if model != "" {
		fmt.Fprintf(&b, "\n--- solver model ---\n%s\n", model)
	}
	if query != "" {
		fmt.Fprintf(&b, "\n--- SMT query (re-run: z3-new -T:30 <file>) ---\n%s\n", query)
	}
	os.WriteFile(name, []byte(b.String()), 0o644)
	return name
}

// contractDerived tells whether an obligation name comes from a contract clause (postcondition, invariant, step
// clause, frame) rather than from an expression of the code (bounds, nil, call-site preconditions, channel and lock
// operations): the latter come and go with harmless edits of the code and are not part of the baseline.
func contractDerived(name string) bool {
	i := strings.Index(name, "/")
	if i < 0 {
		return false
	}
	kind := name[i+1:]
	if j := strings.Index(kind, ":"); j >= 0 {
		kind = kind[:j]
	}
	switch kind {
	case "post", "inv-init", "inv-step", "step", "entry":
		return true
	}
	return false
}

// checkBaseline compares generated obligation names with the committed baseline of the property.
func checkBaseline(verifDir, prop string, results []*Result, reports []*FuncReport) []string {
	data, err := os.ReadFile(filepath.Join(verifDir, "obligations.baseline.json"))
	if err != nil {
		return nil
	}
	var base map[string][]string
	if json.Unmarshal(data, &base) != nil {
		return nil
	}
	// names are compared without the ".N" suffixes of split conjunctions: which conjuncts survive simplification
	// may change with harmless edits, the labelled clause itself must still be generated
	have := map[string]bool{}
	for _, r := range results {
		if r != nil {
			have[baseLabel(r.Name)] = true
		}
	}
	unsupported := map[string]bool{}
	for _, rep := range reports {
		if rep.Unsupported != "" {
			unsupported[rep.Key] = true
		}
	}
	var missing []string
	seenMissing := map[string]bool{}
	for _, n := range base[prop] {
		n = baseLabel(n)
		if have[n] || seenMissing[n] || !contractDerived(n) {
			continue
		}
		seenMissing[n] = true
		fn := n
		if i := strings.Index(n, "/"); i >= 0 {
			fn = n[:i]
		}
		if unsupported[fn] {
			continue // already reported once for the whole function
		}
		missing = append(missing, n)
	}
	return missing
}
