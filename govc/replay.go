package main

// Counterexample replay: a failed obligation whose query was answered `sat` carries a model of the function's entry
// state. The model is rendered as Go literals, the REAL function is called on them inside an in-package test that is
// injected with `go test -overlay` (nothing is written to /repo), and the failed contract clause is evaluated on the
// real values by the run-time evaluator of evaltmpl.go. Only a test that fails on the real code upgrades the report
// from "no-failing-input-found" to a confirmed violation.

import (
	"encoding/json"
	"fmt"
	"go/types"
	"os"
	"os/exec"
	"path/filepath"
	"regexp"
	"strings"
)

type InputDesc struct {
	Name string
	T    types.Type
	Term string
	Recv bool
}

type replayCtx struct {
	v       *Verifier
	rep     *FuncReport
	fd      *FuncDeclInfo
	query   string // the sat query (without check-sat/get-model)
	solver  []string
	cache   map[string]string
	pending map[string]bool
	imports map[string]bool
	stmts   []string
	refVars map[string]string // model reference value -> Go variable
	nvars   int
	tpVals  map[string]int
	giveUp  string
}

type needValue struct{}

func (rc *replayCtx) val(term string) string {
	if v, ok := rc.cache[term]; ok {
		return v
	}
	rc.pending[term] = true
	panic(needValue{})
}

var valueLineRe = regexp.MustCompile(`^\s*\(\(?(.*)\)\)?\s*$`)

// fetch asks the solver for the values of all pending terms.
func (rc *replayCtx) fetch(dir string) error {
	var terms []string
	for t := range rc.pending {
		terms = append(terms, t)
	}
	if len(terms) == 0 {
		return nil
	}
	q := rc.query + "(check-sat)\n"
	for _, t := range terms {
		q += "(get-value (" + t + "))\n"
	}
	file := filepath.Join(dir, "replay-model.smt2")
	if err := os.WriteFile(file, []byte(q), 0o644); err != nil {
		return err
	}
	out, _ := exec.Command(rc.solver[0], append(rc.solver[1:], file)...).CombinedOutput()
	lines := strings.Split(strings.TrimSpace(string(out)), "\n")
	if len(lines) == 0 || strings.TrimSpace(lines[0]) != "sat" {
		return fmt.Errorf("model query did not answer sat: %s", firstLine(string(out)))
	}
	// each get-value answers "((term value))" possibly over several lines: split by balanced parentheses
	rest := strings.Join(lines[1:], "\n")
	answers := splitTopLevel(rest)
	if len(answers) != len(terms) {
		return fmt.Errorf("model query: %d answers for %d terms", len(answers), len(terms))
	}
	for i, a := range answers {
		a = strings.TrimSpace(a)
		a = strings.TrimPrefix(a, "((")
		a = strings.TrimSuffix(a, "))")
		// a is "term value": the value is the last balanced s-expression
		val := lastSexp(a)
		rc.cache[terms[i]] = strings.TrimSpace(val)
	}
	rc.pending = map[string]bool{}
	return nil
}

func splitTopLevel(s string) []string {
	var out []string
	depth, start := 0, -1
	inBar := false
	for i, c := range s {
		switch {
		case c == '|':
			inBar = !inBar
		case inBar:
		case c == '(':
			if depth == 0 {
				start = i
			}
			depth++
		case c == ')':
			depth--
			if depth == 0 && start >= 0 {
				out = append(out, s[start:i+1])
				start = -1
			}
		}
	}
	return out
}

func lastSexp(s string) string {
	s = strings.TrimSpace(s)
	if strings.HasSuffix(s, ")") {
		depth := 0
		inBar := false
		for i := len(s) - 1; i >= 0; i-- {
			c := s[i]
			switch {
			case c == '|':
				inBar = !inBar
			case inBar:
			case c == ')':
				depth++
			case c == '(':
				depth--
				if depth == 0 {
					return s[i:]
				}
			}
		}
	}
	if i := strings.LastIndexAny(s, " \n"); i >= 0 {
		return s[i+1:]
	}
	return s
}

// intOf parses an SMT integer value ("5", "(- 5)").
func intOf(v string) (string, bool) {
	v = strings.TrimSpace(v)
	if strings.HasPrefix(v, "(- ") && strings.HasSuffix(v, ")") {
		return "-" + strings.TrimSpace(v[3:len(v)-1]), true
	}
	for _, c := range v {
		if c < '0' || c > '9' {
			return "", false
		}
	}
	return v, v != ""
}

func realOf(v string) (string, bool) {
	v = strings.TrimSpace(v)
	neg := false
	if strings.HasPrefix(v, "(- ") && strings.HasSuffix(v, ")") {
		neg = true
		v = strings.TrimSpace(v[3 : len(v)-1])
	}
	var out string
	if strings.HasPrefix(v, "(/ ") && strings.HasSuffix(v, ")") {
		f := strings.Fields(v[3 : len(v)-1])
		if len(f) != 2 {
			return "", false
		}
		out = fmt.Sprintf("(float64(%s) / float64(%s))", strings.TrimSuffix(f[0], ".0"), strings.TrimSuffix(f[1], ".0"))
	} else {
		out = "float64(" + strings.TrimSuffix(v, ".0") + ")"
		if strings.Contains(strings.TrimSuffix(v, ".0"), ".") {
			out = v
		}
	}
	if neg {
		out = "-" + out
	}
	return out, true
}

func (rc *replayCtx) qualifier(t types.Type) string {
	return types.TypeString(t, func(p *types.Package) string {
		if p == rc.fd.pkg.types {
			return ""
		}
		rc.imports[p.Path()] = true
		return p.Name()
	})
}

// render produces a Go expression for the model value of term at Go type t.
func (rc *replayCtx) render(t types.Type, term string, depth int) string {
	if depth > 5 {
		rc.giveUp = "input nested too deeply"
		return "nil"
	}
	if n, ok := t.(*types.Named); ok {
		if isTimeTime(n) {
			rc.imports["time"] = true
			iv, _ := intOf(rc.val(term))
			return "time.Unix(0, " + iv + ")"
		}
		if isStringsBuilder(n) {
			rc.giveUp = "strings.Builder input"
			return "strings.Builder{}"
		}
	}
	switch u := t.Underlying().(type) {
	case *types.Basic:
		switch {
		case u.Info()&types.IsBoolean != 0:
			return rc.val(term)
		case u.Info()&types.IsInteger != 0:
			iv, ok := intOf(rc.val(term))
			if !ok {
				rc.giveUp = "integer value " + rc.val(term)
				return "0"
			}
			return rc.qualifier(t) + "(" + iv + ")"
		case u.Info()&types.IsFloat != 0:
			fv, ok := realOf(rc.val(term))
			if !ok {
				rc.giveUp = "real value " + rc.val(term)
				return "0"
			}
			return fv
		case u.Info()&types.IsString != 0:
			return rc.qualifier(t) + "(" + rc.renderString(term) + ")"
		}
	case *types.Slice:
		if isByte(u.Elem()) {
			return "[]byte(" + rc.renderString(term) + ")"
		}
		ss := seqSort(rc.rep.Decls.sortOf(u.Elem()))
		nv, _ := intOf(rc.val("(len_" + ss + " " + term + ")"))
		n := 0
		fmt.Sscan(nv, &n)
		if n < 0 || n > 8 {
			rc.giveUp = fmt.Sprintf("slice of length %s", nv)
			return "nil"
		}
		if n == 0 {
			return "nil"
		}
		var els []string
		for i := 0; i < n; i++ {
			els = append(els, rc.render(u.Elem(), fmt.Sprintf("(select (arr_%s %s) %d)", ss, term, i), depth+1))
		}
		return rc.qualifier(t) + "{" + strings.Join(els, ", ") + "}"
	case *types.Struct:
		sort := rc.rep.Decls.sortOf(t)
		info := rc.rep.Decls.structs[sort]
		var fs []string
		for i, f := range info.fields {
			if f == "_empty" {
				continue
			}
			ft := info.ftypes[i]
			fterm := "(" + fieldSel(sort, f) + " " + term + ")"
			if !rc.renderable(ft) {
				if rc.val("(= "+fterm+" "+rc.rep.Decls.zeroOfSort(info.fsorts[i], ft)+")") != "true" {
					if stub := rc.stub(ft); stub != "" {
						fs = append(fs, f+": "+stub)
						continue
					}
					rc.giveUp = "field " + f + " of type " + ft.String() + " has a non-zero model value that cannot be rendered"
				}
				continue
			}
			st := u.Field(i)
			if !st.Exported() && st.Pkg() != rc.fd.pkg.types {
				continue // unexported field of another package: leave zero
			}
			fs = append(fs, f+": "+rc.render(ft, fterm, depth+1))
		}
		return rc.qualifier(t) + "{" + strings.Join(fs, ", ") + "}"
	case *types.Pointer:
		if rc.val("(= "+term+" nil)") == "true" {
			return "nil"
		}
		ref := rc.val(term)
		if v, ok := rc.refVars[ref+"|"+t.String()]; ok {
			return v
		}
		if !rc.renderable(u.Elem()) {
			rc.giveUp = "pointer to " + u.Elem().String()
			return "nil"
		}
		rc.nvars++
		name := fmt.Sprintf("p%d", rc.nvars)
		rc.refVars[ref+"|"+t.String()] = name
		cell := fmt.Sprintf("(select |H_%s@0| %s)", cellKey(u.Elem()), term)
		if _, declared := rc.rep.Decls.constSeen["H_"+cellKey(u.Elem())+"@0"]; !declared {
			// the function never touched this heap: any value will do
			rc.stmts = append(rc.stmts, fmt.Sprintf("%s := new(%s)", name, rc.qualifier(u.Elem())))
			return name
		}
		rc.stmts = append(rc.stmts, fmt.Sprintf("%s := &%s", name, rc.render(u.Elem(), cell, depth+1)))
		return name
	case *types.TypeParam:
		v := rc.val(term)
		z := rc.val(sym("zero_TP_" + sanitize(u.Obj().Name())))
		if v == z {
			return "0"
		}
		if _, ok := rc.tpVals[v]; !ok {
			rc.tpVals[v] = len(rc.tpVals) + 1
		}
		return fmt.Sprint(rc.tpVals[v])
	case *types.Signature, *types.Interface, *types.Map, *types.Chan:
		if rc.val("(= "+term+" nil)") == "true" {
			return "nil"
		}
		if s := rc.stub(t); s != "" {
			return s
		}
		rc.giveUp = "non-nil value of type " + t.String()
		return "nil"
	case *types.Array:
		rc.giveUp = "array input"
		return rc.qualifier(t) + "{}"
	}
	rc.giveUp = "input of type " + t.String()
	return "nil"
}

func (rc *replayCtx) renderable(t types.Type) bool {
	switch u := t.Underlying().(type) {
	case *types.Signature, *types.Interface, *types.Map, *types.Chan:
		return false
	case *types.Pointer:
		if n, ok := u.Elem().(*types.Named); ok && n.Obj().Pkg() != nil && n.Obj().Pkg() != rc.fd.pkg.types && rc.v.pkgByTypes[n.Obj().Pkg()] == nil {
			return false // pointers into library types (http.Client, rand.Rand ...): nil or a zero object
		}
	}
	return true
}

// stub gives a harmless non-nil value for function types (a function returning zero values).
func (rc *replayCtx) stub(t types.Type) string {
	sig, ok := t.Underlying().(*types.Signature)
	if !ok {
		if p, ok := t.Underlying().(*types.Pointer); ok {
			return "new(" + rc.qualifier(p.Elem()) + ")"
		}
		return ""
	}
	var ps, rs, zs []string
	for i := 0; i < sig.Params().Len(); i++ {
		ps = append(ps, "_ "+rc.qualifier(sig.Params().At(i).Type()))
	}
	for i := 0; i < sig.Results().Len(); i++ {
		rt := sig.Results().At(i).Type()
		rs = append(rs, rc.qualifier(rt))
		zs = append(zs, "*new("+rc.qualifier(rt)+")")
	}
	body := ""
	if len(zs) > 0 {
		body = "return " + strings.Join(zs, ", ")
	}
	return fmt.Sprintf("func(%s) (%s) { %s }", strings.Join(ps, ", "), strings.Join(rs, ", "), body)
}

func (rc *replayCtx) renderString(term string) string {
	nv, ok := intOf(rc.val("(slen " + term + ")"))
	n := 0
	fmt.Sscan(nv, &n)
	if !ok || n < 0 || n > 64 {
		rc.giveUp = "string of length " + nv
		return `""`
	}
	bs := make([]byte, n)
	for i := 0; i < n; i++ {
		bv, _ := intOf(rc.val(fmt.Sprintf("(sat %s %d)", term, i)))
		b := 0
		fmt.Sscan(bv, &b)
		bs[i] = byte(b)
	}
	return fmt.Sprintf("%q", string(bs))
}

// tryReplay attempts to turn the sat model of a failed obligation into a failing test on the real code.
// It returns the replay text (test source + how to run it) and whether the real code confirmed the violation.
func (v *Verifier) tryReplay(rep *FuncReport, r *Result, workDir string) (text string, confirmed bool, why string) {
	if r.Answer != "sat" || r.Query == "" || rep == nil || strings.Contains(rep.Key, "$") {
		return "", false, "no model for a top-level function"
	}
	fd := v.decls[rep.Key]
	spec := v.contracts.Funcs[rep.Key]
	if fd == nil || spec == nil {
		return "", false, "no declaration"
	}
	// the clause to evaluate on the real run
	kind := r.Kind
	var clause string
	if kind == "post" {
		label := baseLabel(r.Name[strings.Index(r.Name, "/post:")+6:])
		for _, e := range spec.Ensures {
			if e.Label == label {
				clause = exprText(e.Expr)
			}
		}
		if clause == "" {
			return "", false, "clause not found"
		}
	} else if kind != "bounds" && kind != "nil" && kind != "panic" && kind != "arith" {
		return "", false, "obligation kind " + kind + " is about an intermediate state"
	}
	solverCmd := map[string][]string{"z3-new": {"z3-new", "-T:20"}, "z3": {"z3", "-T:20"}, "cvc5": {"cvc5", "--tlimit=20000", "-q", "--produce-models"}}[r.Solver]
	if solverCmd == nil {
		return "", false, "unknown solver"
	}
	q := r.Query
	if i := strings.LastIndex(q, "(check-sat)"); i >= 0 {
		q = q[:i]
	}
	rc := &replayCtx{v: v, rep: rep, fd: fd, query: q, solver: solverCmd, cache: map[string]string{}, pending: map[string]bool{},
		imports: map[string]bool{"reflect": true, "testing": true}, refVars: map[string]string{}, tpVals: map[string]int{}}
	// two independent copies of the inputs: one is handed to the function, one stays as the pre-state for old()
	var decls [2][]string
	var names []string
	for round := 0; round < 8; round++ {
		ok := func() (ok bool) {
			defer func() {
				if x := recover(); x != nil {
					if _, need := x.(needValue); need {
						ok = false
						return
					}
					panic(x)
				}
			}()
			for copyNo := 0; copyNo < 2; copyNo++ {
				rc.stmts, rc.refVars, rc.nvars = nil, map[string]string{}, copyNo*100
				decls[copyNo] = nil
				names = nil
				for _, in := range rep.Inputs {
					lit := rc.render(in.T, in.Term, 0)
					suffix := ""
					if copyNo == 1 {
						suffix = "_old"
					}
					decls[copyNo] = append(decls[copyNo], rc.stmts...)
					rc.stmts = nil
					decls[copyNo] = append(decls[copyNo], fmt.Sprintf("var %s%s %s = %s", in.Name, suffix, rc.qualifier(in.T), lit))
					names = append(names, in.Name)
				}
			}
			return true
		}()
		if ok {
			break
		}
		if err := rc.fetch(workDir); err != nil {
			return "", false, err.Error()
		}
		if round == 7 {
			return "", false, "model too deep to render"
		}
	}
	if rc.giveUp != "" {
		return "", false, "the model cannot be rendered as Go values: " + rc.giveUp
	}
	// the call
	sig := fd.obj.Type().(*types.Signature)
	var args []string
	recvName := ""
	for _, in := range rep.Inputs {
		if in.Recv {
			recvName = in.Name
		} else {
			args = append(args, in.Name)
		}
	}
	if sig.Variadic() && len(args) > 0 {
		args[len(args)-1] += "..."
	}
	callee := fd.decl.Name.Name
	if recvName != "" {
		callee = recvName + "." + callee
	}
	if fd.obj.Type().(*types.Signature).TypeParams().Len() > 0 || (sig.Recv() != nil && hasTypeParams(sig.Recv().Type())) {
		// generic code is replayed with the type parameter instantiated to int
	}
	var results []string
	for i := 0; i < sig.Results().Len(); i++ {
		results = append(results, fmt.Sprintf("r%d", i))
	}
	callStmt := callee + "(" + strings.Join(args, ", ") + ")"
	if len(results) > 0 {
		callStmt = strings.Join(results, ", ") + " := " + callStmt
	}
	var b strings.Builder
	pkgName := fd.pkg.name
	fmt.Fprintf(&b, "package %s\n\nimport (\n", pkgName)
	for _, imp := range sortedKeys(rc.imports) {
		fmt.Fprintf(&b, "\t%q\n", imp)
	}
	fmt.Fprintf(&b, ")\n\n// Replay of the verifier's counterexample for obligation %s on the real code.\nfunc TestVerifReplay(t *testing.T) {\n", r.Name)
	for _, d := range decls[0] {
		b.WriteString("\t" + d + "\n")
	}
	for _, d := range decls[1] {
		b.WriteString("\t" + strings.ReplaceAll(d, " := ", " := ") + "\n")
	}
	b.WriteString("\tenv := &verifEnv{vars: map[string]reflect.Value{}, old: map[string]reflect.Value{}, pures: map[string]verifPure{}, bound: map[string]any{}}\n")
	for _, n := range names {
		fmt.Fprintf(&b, "\tenv.vars[%q] = reflect.ValueOf(&%s).Elem()\n\tenv.old[%q] = reflect.ValueOf(&%s_old).Elem()\n", n, n, n, n)
	}
	// only the spec functions the clause and the preconditions (transitively) mention
	needed := map[string]bool{}
	var mark func(text string)
	mark = func(text string) {
		for _, name := range sortedKeys(v.contracts.Pures) {
			if !strings.HasPrefix(name, pkgName+".") {
				continue
			}
			short := name[len(pkgName)+1:]
			if !needed[short] && regexp.MustCompile(`\b`+regexp.QuoteMeta(short)+`\(`).MatchString(text) {
				needed[short] = true
				mark(exprText(v.contracts.Pures[name].Body))
			}
		}
	}
	mark(clause)
	for _, rq := range spec.Requires {
		mark(exprText(rq.Expr))
	}
	for _, short := range sortedKeys(needed) {
		pf := v.contracts.Pures[pkgName+"."+short]
		fmt.Fprintf(&b, "\tenv.pures[%q] = verifPure{params: %#v, body: %q}\n", short, pf.Params, exprText(pf.Body))
	}
	// preconditions must hold of the model input on the real values, otherwise the model is spurious
	for _, rq := range spec.Requires {
		fmt.Fprintf(&b, "\tif ok, un := verifEval(env, %q); un == \"\" && !ok {\n\t\tt.Skip(\"spurious model: precondition %s does not hold of the rendered input\")\n\t}\n", exprText(rq.Expr), rq.Label)
	}
	b.WriteString("\tdefer func() {\n\t\tif p := recover(); p != nil {\n\t\t\tt.Fatalf(\"CONFIRMED: the real code panics on the verifier's input: %v\", p)\n\t\t}\n\t}()\n")
	b.WriteString("\t" + callStmt + "\n")
	rnames := resultNames(fd, spec, sig.Results().Len())
	for i := range results {
		fmt.Fprintf(&b, "\tenv.vars[%q] = reflect.ValueOf(&r%d).Elem()\n", defaultResultName(i), i)
		if rnames[i] != "" && rnames[i] != "_" {
			fmt.Fprintf(&b, "\tenv.vars[%q] = reflect.ValueOf(&r%d).Elem()\n", rnames[i], i)
		}
	}
	if clause != "" {
		fmt.Fprintf(&b, "\tok, unsupported := verifEval(env, %q)\n", clause)
		b.WriteString("\tif unsupported != \"\" {\n\t\tt.Skip(\"clause cannot be evaluated at run time: \" + unsupported)\n\t}\n")
		fmt.Fprintf(&b, "\tif !ok {\n\t\tt.Fatalf(\"CONFIRMED: clause %%s is false on the real code for the verifier's input\", %q)\n\t}\n", clause)
	} else {
		b.WriteString("\t// the obligation is a safety condition: the real code must panic on this input for the model to be confirmed\n\tt.Skip(\"no panic on the real code: spurious model\")\n")
	}
	b.WriteString("}\n")
	test := b.String()
	// run it
	dir := fd.pkg.dir
	tf := filepath.Join(workDir, "verif_replay_test.go")
	hf := filepath.Join(workDir, "verif_eval_test.go")
	os.WriteFile(tf, []byte(test), 0o644)
	os.WriteFile(hf, []byte(strings.Replace(evalHelperSrc, "PKGNAME", pkgName, 1)), 0o644)
	ov, _ := json.Marshal(map[string]any{"Replace": map[string]string{filepath.Join(dir, "verif_replay_test.go"): tf, filepath.Join(dir, "verif_eval_test.go"): hf}})
	ovf := filepath.Join(workDir, "ov.json")
	os.WriteFile(ovf, ov, 0o644)
	cmd := exec.Command("go", "test", "-overlay", ovf, "-vet=off", "-timeout", "60s", "-count=1", "-run", "^TestVerifReplay$", "-v", ".")
	cmd.Dir = dir
	cmd.Env = append(os.Environ(), "GOFLAGS=-mod=mod", "GOPROXY=off", "GOSUMDB=off", "GOTOOLCHAIN=local")
	out, err := cmd.CombinedOutput()
	outS := string(out)
	text = "--- go test (" + dir + ") ---\n" + test + "\n--- end go test ---\n\n--- output of the replay on the real code ---\n" + outS + "\n"
	switch {
	case strings.Contains(outS, "CONFIRMED:"):
		return text, true, ""
	case err == nil && strings.Contains(outS, "--- SKIP"):
		return text, false, "the model did not reproduce on the real code (" + firstSkip(outS) + ")"
	case err == nil:
		return text, false, "the clause holds on the real code for this model (spurious model)"
	default:
		return text, false, "the replay test did not run: " + firstLine(lastLines(outS, 6))
	}
}

func hasTypeParams(t types.Type) bool {
	if p, ok := t.(*types.Pointer); ok {
		t = p.Elem()
	}
	n, ok := t.(*types.Named)
	return ok && n.TypeArgs() != nil && n.TypeArgs().Len() > 0 || ok && n.TypeParams() != nil && n.TypeParams().Len() > 0
}

func firstSkip(out string) string {
	for _, l := range strings.Split(out, "\n") {
		if strings.Contains(l, "spurious") || strings.Contains(l, "cannot be evaluated") {
			return strings.TrimSpace(l)
		}
	}
	return "skipped"
}

func lastLines(s string, n int) string {
	ls := strings.Split(strings.TrimSpace(s), "\n")
	if len(ls) > n {
		ls = ls[len(ls)-n:]
	}
	return strings.Join(ls, " | ")
}
