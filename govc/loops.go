package main

// Loops: cut at the invariant. inv-init at entry, havoc of everything the body may change, assume invariant,
// one symbolic iteration, inv-step at the back edge; exits continue from invariant && !guard.

import (
	"fmt"
	"go/ast"
	"go/token"
	"go/types"
	"strings"
)

type writeSet struct {
	vars   map[types.Object]bool
	locs   []ast.Expr // heap lvalue roots written (evaluated at loop entry)
	calls  []*ast.CallExpr
	trace  bool
	pkgs   map[ast.Expr]*Pkg
	chanOp bool
	scanner bool
	maps    []ast.Expr // maps whose cells are written (m[k] = v, delete(m, k))
}

// collectWrites scans a loop body (and the bodies of closures it calls) for everything it may modify.
func (fx *Fx) collectWrites(nodes []ast.Node, st *State) *writeSet {
	ws := &writeSet{vars: map[types.Object]bool{}, pkgs: map[ast.Expr]*Pkg{}}
	seenLit := map[*ast.FuncLit]bool{}
	var scan func(n ast.Node)
	addLHS := func(e ast.Expr) {
		e = ast.Unparen(e)
		// m[k] = v writes the map's cell, not the variable or field holding the map
		if ix, ok := e.(*ast.IndexExpr); ok {
			if t := fx.typeOf(ix.X); t != nil {
				if _, isMap := t.Underlying().(*types.Map); isMap {
					ws.maps = append(ws.maps, ix.X)
					ws.pkgs[ix.X] = fx.pkg
					return
				}
			}
		}
		if id, ok := e.(*ast.Ident); ok {
			if o := fx.pkg.info.ObjectOf(id); o != nil {
				ws.vars[o] = true
			}
			return
		}
		// strip to the root that is stable: cut at index expressions
		root := e
		derefs := false
		for {
			switch r := ast.Unparen(root).(type) {
			case *ast.IndexExpr:
				root = r.X
				e = r.X
				continue
			case *ast.SelectorExpr:
				if t := fx.typeOf(r.X); t != nil {
					if _, isPtr := t.Underlying().(*types.Pointer); isPtr {
						derefs = true
					}
				}
				root = r.X
				continue
			case *ast.StarExpr:
				derefs = true
				root = r.X
				continue
			}
			break
		}
		if id, ok := ast.Unparen(e).(*ast.Ident); ok {
			if o := fx.pkg.info.ObjectOf(id); o != nil {
				ws.vars[o] = true
			}
			return
		}
		// a field (or element) of a local struct/array variable: the variable itself is written
		if id, ok := ast.Unparen(root).(*ast.Ident); ok && !derefs {
			if o, ok := fx.pkg.info.ObjectOf(id).(*types.Var); ok && o.Parent() != o.Pkg().Scope() {
				ws.vars[o] = true
				return
			}
		}
		ws.locs = append(ws.locs, e)
		ws.pkgs[e] = fx.pkg
	}
	scan = func(n ast.Node) {
		ast.Inspect(n, func(n ast.Node) bool {
			switch x := n.(type) {
			case *ast.AssignStmt:
				for _, l := range x.Lhs {
					addLHS(l)
				}
			case *ast.IncDecStmt:
				addLHS(x.X)
			case *ast.RangeStmt:
				if x.Key != nil {
					addLHS(x.Key)
				}
				if x.Value != nil {
					addLHS(x.Value)
				}
			case *ast.UnaryExpr:
				if x.Op == token.AND {
					if id, ok := ast.Unparen(x.X).(*ast.Ident); ok {
						if o := fx.pkg.info.ObjectOf(id); o != nil {
							if _, isVar := o.(*types.Var); isVar {
								ws.vars[o] = true
							}
						}
					}
				}
				if x.Op == token.ARROW {
					ws.chanOp = true
				}
			case *ast.SendStmt:
				ws.chanOp = true
			case *ast.CallExpr:
				ws.calls = append(ws.calls, x)
				if id, ok := ast.Unparen(x.Fun).(*ast.Ident); ok && id.Name == "delete" && len(x.Args) == 2 {
					if _, isB := fx.pkg.info.Uses[id].(*types.Builtin); isB {
						ws.maps = append(ws.maps, x.Args[0])
						ws.pkgs[x.Args[0]] = fx.pkg
					}
				}
				// copy(dst, ...) and clear(dst) write their first operand (through a slice expression too)
				if id, ok := ast.Unparen(x.Fun).(*ast.Ident); ok && (id.Name == "copy" || id.Name == "clear") && len(x.Args) >= 1 {
					if _, isB := fx.pkg.info.Uses[id].(*types.Builtin); isB {
						d := ast.Unparen(x.Args[0])
						for {
							sl, ok := d.(*ast.SliceExpr)
							if !ok {
								break
							}
							d = ast.Unparen(sl.X)
						}
						addLHS(d)
					}
				}
				if se, ok := ast.Unparen(x.Fun).(*ast.SelectorExpr); ok {
					if sel, ok := fx.pkg.info.Selections[se]; ok && sel.Kind() == types.MethodVal {
						if fn, ok := sel.Obj().(*types.Func); ok && strings.HasPrefix(fn.FullName(), "(*bufio.Scanner).") {
							ws.scanner = true
						}
						// strings.Builder is modelled by its content: its mutating methods write the receiver
						if fn, ok := sel.Obj().(*types.Func); ok && strings.HasPrefix(fn.FullName(), "(*strings.Builder).") && fn.Name() != "String" && fn.Name() != "Len" {
							addLHS(se.X)
						}
					}
				}
				// closure called by name: scan its body too
				if id, ok := ast.Unparen(x.Fun).(*ast.Ident); ok {
					if o := fx.pkg.info.ObjectOf(id); o != nil {
						if v, ok := st.env[o]; ok && v.Fn != nil && v.Fn.Lit != nil && !seenLit[v.Fn.Lit] {
							seenLit[v.Fn.Lit] = true
							scan(v.Fn.Lit.Body)
						}
					}
				}
			}
			return true
		})
	}
	for _, n := range nodes {
		if n != nil {
			scan(n)
		}
	}
	return ws
}

// havoc gives fresh values to everything in the write set, on state st.
func (fx *Fx) havoc(st *State, ws *writeSet) {
	for o := range ws.vars {
		if cur, ok := st.env[o]; ok {
			if cur.Fn != nil {
				continue
			}
			if cur.Root == "@local" {
				l := &Loc{kind: locCell, key: "local_" + typeKey(o.Type()), ref: cur.X, T: o.Type()}
				fx.store(st, l, fx.freshVal(st, "h_"+o.Name(), o.Type()))
				continue
			}
			st.env[o] = fx.freshVal(st, "h_"+o.Name(), o.Type())
		}
	}
	for _, e := range ws.locs {
		saved := fx.pkg
		fx.pkg = ws.pkgs[e]
		func() {
			fx.inSpec++
			defer func() { fx.inSpec--; fx.pkg = saved }()
			p := fx.evalPlace(st, e, false)
			if p.loc == nil {
				panic(unsupported("loop writes through non-location " + exprText(e)))
			}
			fx.store(st, p.loc, fx.freshVal(st, "h_"+sanitize(exprText(e)), p.loc.T))
		}()
	}
	for _, e := range ws.maps {
		saved := fx.pkg
		fx.pkg = ws.pkgs[e]
		func() {
			fx.inSpec++
			defer func() { fx.inSpec--; fx.pkg = saved }()
			defer func() { recover() }() // a map only reachable through loop-local variables needs no havoc at the head
			mv := fx.eval(st, e, false)
			if m, ok := mv.T.Underlying().(*types.Map); ok {
				cell, _, _ := fx.mapSort(m)
				fx.store(st, &Loc{kind: locCell, key: "map_" + cell, ref: mv.X, T: mv.T, S: cell}, Val{T: mv.T, S: cell, X: fx.d.freshConst("h_map", cell)})
			}
		}()
	}
	abstract := false
	for _, c := range ws.calls {
		switch fx.classifyCall(st, c) {
		case callAbstract:
			abstract = true
		case callContract:
			key, fd, recvExpr := fx.calleeOf(c)
			spec := fx.v.contracts.Funcs[key]
			if spec == nil {
				if fd != nil && singleReturn(fd.decl) == nil {
					panic(unsupported("call to " + key + " inside a loop needs a contract (what it modifies is unknown)"))
				}
				continue
			}
			if len(spec.Modifies) == 0 {
				continue
			}
			// instantiate the modifies set with receiver/arguments evaluated at loop entry
			func() {
				fx.inSpec++
				defer func() { fx.inSpec-- }()
				var recv *Val
				if recvExpr != nil {
					rp := fx.evalPlace(st, recvExpr, false)
					rv := fx.receiverValue(st, rp, fd.obj.Type().(*types.Signature), exprText(recvExpr), false)
					recv = &rv
				}
				var args []Val
				for _, a := range c.Args {
					args = append(args, fx.evalOrFresh(st, a))
				}
				bind := fx.specBindings(fd, spec, recv, args)
				for _, m := range spec.Modifies {
					fx.havocSpecLoc(st, fd.pkg, bind, m)
				}
			}()
			if fx.specUsesTrace(spec) || fx.v.mayTouchTrace(key) {
				abstract = true
			}
		}
	}
	if abstract || ws.trace {
		fx.havocTrace(st)
	}
	if ws.chanOp {
		fx.havocChans(st)
	}
	if ws.scanner {
		fx.scannerCell(st, "nil")
		st.heap["ghost_scanner"] = fx.d.freshConst("H_ghost_scanner", "(Array Ref "+scannerSort+")")
	}
}

// evalOrFresh evaluates an argument at loop entry; arguments that only exist inside the loop become arbitrary values.
func (fx *Fx) evalOrFresh(st *State, a ast.Expr) (v Val) {
	defer func() {
		if r := recover(); r != nil {
			t := fx.typeOf(a)
			if t == nil {
				panic(r)
			}
			v = fx.freshVal(st, "loopArg", t)
		}
	}()
	return fx.eval(st, a, false)
}

func (fx *Fx) havocTrace(st *State) {
	n0 := fx.trCount(st)
	n1 := fx.d.freshConst("T_n", SInt)
	st.assume(app("<=", n0, n1))
	st.trN = n1
	// whoever extended the trace may also have read the context's error
	st.ghost["ctxerrval"] = Val{T: types.Universe.Lookup("error").Type(), S: SRef, X: fx.d.freshConst("ctxerrval", SRef)}
	if g, ok := st.ghost["ctxerrat"]; ok {
		c := fx.d.freshConst("ctxerrat", SInt)
		st.assume(and(app("<=", g.X, c), app("<=", c, n1)))
		st.ghost["ctxerrat"] = Val{T: g.T, S: SInt, X: c}
	} else {
		c := fx.d.freshConst("ctxerrat", SInt)
		st.assume(and(app("<=", "(- 1)", c), app("<=", c, n1)))
		st.ghost["ctxerrat"] = Val{T: types.Typ[types.Int], S: SInt, X: c}
	}
	for _, col := range sortedKeys(st.trCols) {
		old := st.trCols[col]
		sort, _ := fx.v.traceColSort(fx, col)
		nw := fx.d.freshConst("T_"+col, "(Array Int "+sort+")")
		if col == "callat" {
			st.trCols[col] = nw
			continue
		}
		cmp := "<"
		if col == "acc" {
			cmp = "<=" // acc[k] is the total accepted by calls [0,k): the entry at the current count is already fixed
		}
		st.assume(fmt.Sprintf("(forall ((k Int)) (! (=> (%s k %s) (= (select %s k) (select %s k))) :pattern ((select %s k))))", cmp, n0, nw, old, nw))
		st.trCols[col] = nw
	}
}

const (
	callOther = iota
	callAbstract
	callContract
)

func (fx *Fx) calleeOf(call *ast.CallExpr) (string, *FuncDeclInfo, ast.Expr) {
	info := fx.pkg.info
	fun := ast.Unparen(call.Fun)
	if ix, ok := fun.(*ast.IndexExpr); ok {
		fun = ix.X
	}
	var obj types.Object
	var recvExpr ast.Expr
	switch f := fun.(type) {
	case *ast.Ident:
		obj = info.Uses[f]
	case *ast.SelectorExpr:
		if sel, ok := info.Selections[f]; ok {
			if sel.Kind() == types.MethodVal {
				obj = sel.Obj()
				recvExpr = f.X
			}
		} else {
			obj = info.Uses[f.Sel]
		}
	}
	fn, ok := obj.(*types.Func)
	if !ok {
		return "", nil, nil
	}
	fn = fn.Origin()
	if fn.Pkg() == nil || fx.v.pkgByTypes[fn.Pkg()] == nil {
		return "", nil, nil
	}
	key := fx.v.funcKey(fn)
	return key, fx.v.decls[key], recvExpr
}

func (fx *Fx) classifyCall(st *State, call *ast.CallExpr) int {
	info := fx.pkg.info
	if tv, ok := info.Types[call.Fun]; ok && tv.IsType() {
		return callOther
	}
	fun := ast.Unparen(call.Fun)
	if ix, ok := fun.(*ast.IndexExpr); ok {
		fun = ix.X
	}
	switch f := fun.(type) {
	case *ast.Ident:
		switch o := info.Uses[f].(type) {
		case *types.Builtin:
			return callOther
		case *types.Func:
			_ = o
			key, _, _ := fx.calleeOf(call)
			if key != "" {
				return callContract
			}
			return callOther
		case *types.Var:
			if v, ok := st.env[o]; ok && v.Fn != nil {
				return callOther
			}
			return callAbstract
		}
	case *ast.SelectorExpr:
		if sel, ok := info.Selections[f]; ok {
			switch sel.Kind() {
			case types.MethodVal:
				if _, isTP := sel.Recv().(*types.TypeParam); isTP {
					return callOther // method of a type parameter: an uninterpreted function
				}
				if _, isIface := sel.Recv().Underlying().(*types.Interface); isIface {
					return callAbstract
				}
				key, _, _ := fx.calleeOf(call)
				if key != "" {
					return callContract
				}
				return callOther
			case types.FieldVal:
				return callAbstract
			}
		}
		key, _, _ := fx.calleeOf(call)
		if key != "" {
			return callContract
		}
		return callOther
	case *ast.CallExpr:
		return callAbstract
	}
	return callOther
}

func (fx *Fx) specUsesTrace(spec *FuncSpec) bool {
	uses := false
	for _, e := range spec.Ensures {
		ast.Inspect(e.Expr, func(n ast.Node) bool {
			if id, ok := n.(*ast.Ident); ok && (id.Name == "ncalls" || id.Name == "iscall" || id.Name == "written" || id.Name == "carg" || id.Name == "cret") {
				uses = true
			}
			return true
		})
	}
	return uses
}

func (fx *Fx) loopSpec(node ast.Node) (*LoopSpec, int) {
	ord, ok := fx.loopOrd[node]
	if !ok {
		return nil, -1
	}
	var own *LoopSpec
	if fx.spec != nil {
		own = fx.spec.Loops[ord]
	}
	// a loop of an inlined function: the function under verification may add invariants about its own state
	if fx.inlineName != "" && fx.rootSpec != nil {
		if extra := fx.rootSpec.InlLoops[fmt.Sprintf("%s.%d", fx.inlineName, ord)]; extra != nil {
			merged := &LoopSpec{}
			if own != nil {
				merged.Invariants = append(merged.Invariants, own.Invariants...)
			}
			merged.Invariants = append(merged.Invariants, extra.Invariants...)
			return merged, ord
		}
	}
	return own, ord
}

func (fx *Fx) checkInvariants(st *State, ls *LoopSpec, ord int, kind string) {
	if ls == nil {
		return
	}
	for _, inv := range ls.Invariants {
		g := fx.specEval(st, fx.pkg, nil, nil, inv.Expr)
		fx.oblige(st, kind, fmt.Sprintf("loop%d:%s", ord, inv.Label), g, inv.Text)
	}
	if kind == "inv-init" {
		for _, en := range ls.Entries {
			g := fx.specEval(st, fx.pkg, nil, nil, en.Expr)
			fx.oblige(st, "entry", fmt.Sprintf("loop%d:%s", ord, en.Label), g, en.Text)
		}
	}
}

func (fx *Fx) checkSteps(st *State, ls *LoopSpec, ord int) {
	if ls == nil || st.iterHead == nil {
		return
	}
	for _, sc := range ls.Steps {
		g := fx.specEval(st, fx.pkg, nil, nil, sc.Expr)
		fx.oblige(st, "step", fmt.Sprintf("loop%d:%s", ord, sc.Label), g, sc.Text)
	}
}

func (fx *Fx) assumeInvariants(st *State, ls *LoopSpec) {
	if ls == nil {
		return
	}
	for _, inv := range ls.Invariants {
		st.assume(fx.specEval(st, fx.pkg, nil, nil, inv.Expr))
	}
}

func (fx *Fx) execFor(st *State, x *ast.ForStmt, label string) []Outcome {
	var outs []Outcome
	pre := normal(st)
	if x.Init != nil {
		pre = fx.exec(st, x.Init)
	}
	ls, ord := fx.loopSpec(x)
	for _, p := range pre {
		if p.kind != kNormal {
			outs = append(outs, p)
			continue
		}
		cur := p.st
		fx.checkInvariants(cur, ls, ord, "inv-init")
		ws := fx.collectWrites([]ast.Node{x.Body, x.Post, x.Cond}, cur)
		fx.havoc(cur, ws)
		fx.assumeInvariants(cur, ls)
		for _, br := range fx.evalCond(cur, x.Cond) {
			if br.kind != kNormal {
				outs = append(outs, Outcome{st: br.st, kind: br.kind})
				continue
			}
			if !br.truth {
				if br.st.loopExit == nil {
					br.st.loopExit = map[int]*State{}
				}
				snap := br.st.clone()
				snap.loopExit = nil
				br.st.loopExit[ord] = snap
				outs = append(outs, Outcome{st: br.st, kind: kNormal})
				continue
			}
			savedHead := br.st.iterHead
			br.st.iterHead = br.st.clone()
			bodyOuts := fx.exec(br.st, x.Body)
			for _, o := range bodyOuts {
				if o.kind != kPanic {
					fx.checkSteps(o.st, ls, ord)
				}
				o.st.iterHead = savedHead
			}
			for _, o := range bodyOuts {
				switch {
				case o.kind == kNormal || (o.kind == kContinue && (o.label == "" || o.label == label)):
					posts := normal(o.st)
					if x.Post != nil {
						posts = fx.exec(o.st, x.Post)
					}
					for _, q := range posts {
						fx.checkInvariants(q.st, ls, ord, "inv-step")
					}
				case o.kind == kBreak && (o.label == "" || o.label == label):
					outs = append(outs, Outcome{st: o.st, kind: kNormal})
				default:
					outs = append(outs, o)
				}
			}
		}
	}
	return outs
}

func (fx *Fx) execRange(st *State, x *ast.RangeStmt, label string) []Outcome {
	var outs []Outcome
	xt := fx.typeOf(x.X)
	if m, ok := xt.Underlying().(*types.Map); ok {
		return fx.execRangeMap(st, x, m, label)
	}
	seq := fx.eval(st, x.X, false)
	ls, ord := fx.loopSpec(x)
	idxName := fmt.Sprintf("ri%d", ord)
	var n string
	if b, ok := xt.Underlying().(*types.Basic); ok && b.Info()&types.IsInteger != 0 {
		n = seq.X
	} else if b, ok := xt.Underlying().(*types.Basic); ok && b.Info()&types.IsString != 0 {
		panic(unsupported("range over string (runes)"))
	} else if a, ok := xt.Underlying().(*types.Array); ok {
		n = fmt.Sprint(a.Len())
	} else {
		n = fx.seqLen(seq)
	}
	st.ghost[idxName] = Val{T: types.Typ[types.Int], S: SInt, X: "0"}
	fx.checkInvariants(st, ls, ord, "inv-init")
	ws := fx.collectWrites([]ast.Node{x.Body}, st)
	if x.Key != nil {
		if id, ok := x.Key.(*ast.Ident); ok && id.Name != "_" {
			if o := fx.pkg.info.ObjectOf(id); o != nil {
				delete(ws.vars, o)
			}
		}
	}
	fx.havoc(st, ws)
	idx := fx.d.freshConst(idxName, SInt)
	st.ghost[idxName] = Val{T: types.Typ[types.Int], S: SInt, X: idx}
	st.assume(and(app("<=", "0", idx), app("<=", idx, n)))
	fx.assumeInvariants(st, ls)
	// exit
	exit := st.clone()
	exit.assume(app("=", idx, n))
	outs = append(outs, Outcome{st: exit, kind: kNormal})
	// iteration
	body := st
	body.assume(app("<", idx, n))
	define := x.Tok == token.DEFINE
	if x.Key != nil {
		if p, ok := fx.lhsPlace(body, x.Key, define); ok {
			fx.assignTo(body, p, Val{T: types.Typ[types.Int], S: SInt, X: idx})
		}
	}
	if x.Value != nil {
		if p, ok := fx.lhsPlace(body, x.Value, define); ok {
			fx.assignTo(body, p, fx.indexVal(body, seq, idx, elemType(xt)))
		}
	}
	for _, o := range fx.exec(body, x.Body) {
		switch {
		case o.kind == kNormal || (o.kind == kContinue && (o.label == "" || o.label == label)):
			o.st.ghost[idxName] = Val{T: types.Typ[types.Int], S: SInt, X: app("+", idx, "1")}
			fx.checkInvariants(o.st, ls, ord, "inv-step")
		case o.kind == kBreak && (o.label == "" || o.label == label):
			outs = append(outs, Outcome{st: o.st, kind: kNormal})
		default:
			outs = append(outs, o)
		}
	}
	return outs
}
