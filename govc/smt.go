package main

// SMT-LIB emission helpers: sorts, datatype declarations, term builders.

import (
	"fmt"
	"go/types"
	"sort"
	"strings"
)

const (
	SInt  = "Int"
	SBool = "Bool"
	SReal = "Real"
	SRef  = "Ref"
	SStr  = "Str"
)

// Decls collects the declarations shared by all obligations of one function.
type Decls struct {
	sorts     []string          // declaration text, in order
	sortSeen  map[string]bool   // sort name -> declared
	consts    []string          // declare-const / declare-fun lines, in order
	constSeen map[string]string // name -> sort
	axioms    []string          // (assert ...) lines valid in every obligation
	lits      map[string]string // Go string literal -> const name
	fresh     int
	structs   map[string]*structInfo // sort name -> info
	zeros     map[string]string      // sort -> zero term for type-param sorts etc
	named     map[string]types.Type
}

type structInfo struct {
	sort   string
	ctor   string
	fields []string // field names
	fsorts []string
	ftypes []types.Type
}

func newDecls() *Decls {
	return &Decls{sortSeen: map[string]bool{}, constSeen: map[string]string{}, lits: map[string]string{},
		structs: map[string]*structInfo{}, zeros: map[string]string{}, named: map[string]types.Type{}}
}

// The preamble is assembled per query from the groups whose symbols the query mentions, so that
// quantifier-free obligations stay quantifier-free (and get models when they fail).
const preBase = `(declare-sort Ref 0)
(declare-const nil Ref)
(declare-sort Str 0)
(declare-fun slen (Str) Int)
(declare-fun sat (Str Int) Int)
(declare-fun ssub (Str Int Int) Str)
(declare-fun sconcat (Str Str) Str)
(declare-const str_empty Str)
(declare-fun dyntype (Ref) Int)
(declare-fun fmtU (Int) Str)
(declare-fun parseU_ok (Str) Bool)
(declare-fun parseU_val (Str) Int)
(declare-fun parseI_ok (Str) Bool)
(declare-fun parseI_val (Str) Int)
(declare-fun ringidx (Int Int Int) Int)
`

type axiomGroup struct {
	trigger []string // included when the query mentions one of these symbols
	text    string
}

var axiomGroups = []axiomGroup{
	{[]string{"(ringidx "}, `(assert (forall ((h Int) (l Int) (k Int)) (! (= (ringidx h l k) (ite (< (+ h k) l) (+ h k) (- (+ h k) l))) :pattern ((ringidx h l k)))))
(assert (forall ((h Int) (l Int) (a Int) (b Int)) (! (=> (and (<= 0 h) (< h l) (<= 0 a) (<= 0 b) (<= (+ a b) l)) (= (ringidx (ringidx h l a) l b) (ringidx h l (+ a b)))) :pattern ((ringidx (ringidx h l a) l b)))))
`},
	{[]string{"slen", "str_empty", "(sat "}, `(assert (= (slen str_empty) 0))
(assert (forall ((s Str)) (! (>= (slen s) 0) :pattern ((slen s)))))
(assert (forall ((s Str)) (! (=> (= (slen s) 0) (= s str_empty)) :pattern ((slen s)))))
`},
	{[]string{"(sat "}, `(assert (forall ((s Str) (i Int)) (! (and (<= 0 (sat s i)) (< (sat s i) 256)) :pattern ((sat s i)))))
`},
	{[]string{"(ssub "}, `(assert (forall ((s Str) (a Int) (b Int)) (! (=> (and (<= 0 a) (<= a b) (<= b (slen s))) (= (slen (ssub s a b)) (- b a))) :pattern ((ssub s a b)))))
(assert (forall ((s Str) (a Int) (b Int) (i Int)) (! (=> (and (<= 0 a) (<= a b) (<= b (slen s)) (<= 0 i) (< i (- b a))) (= (sat (ssub s a b) i) (sat s (+ a i)))) :pattern ((sat (ssub s a b) i)))))
(assert (forall ((s Str)) (! (= (ssub s 0 (slen s)) s) :pattern ((ssub s 0 (slen s))))))
(assert (forall ((s Str) (a Int) (b Int) (c Int) (d Int)) (! (=> (and (<= 0 a) (<= a b) (<= b (slen s)) (<= 0 c) (<= c d) (<= d (- b a))) (= (ssub (ssub s a b) c d) (ssub s (+ a c) (+ a d)))) :pattern ((ssub (ssub s a b) c d)))))
`},
	{[]string{"(sconcat "}, `(assert (forall ((a Str) (b Str)) (! (= (slen (sconcat a b)) (+ (slen a) (slen b))) :pattern ((sconcat a b)))))
(assert (forall ((a Str) (b Str) (i Int)) (! (=> (and (<= 0 i) (< i (+ (slen a) (slen b)))) (= (sat (sconcat a b) i) (ite (< i (slen a)) (sat a i) (sat b (- i (slen a)))))) :pattern ((sat (sconcat a b) i)))))
`},
	{[]string{"(fmtU ", "(parseU_"}, `(assert (forall ((n Int)) (! (=> (and (<= 0 n) (< n 18446744073709551616)) (and (parseU_ok (fmtU n)) (= (parseU_val (fmtU n)) n))) :pattern ((fmtU n)))))
(assert (forall ((s Str)) (! (=> (parseU_ok s) (and (<= 0 (parseU_val s)) (< (parseU_val s) 18446744073709551616) (> (slen s) 0))) :pattern ((parseU_ok s)))))
(assert (forall ((n Int)) (! (> (slen (fmtU n)) 0) :pattern ((fmtU n)))))
(assert (forall ((n Int) (i Int)) (! (=> (and (<= 0 i) (< i (slen (fmtU n)))) (and (<= 48 (sat (fmtU n) i)) (<= (sat (fmtU n) i) 57))) :pattern ((sat (fmtU n) i)))))
`},
}

func preambleFor(body string) string {
	var b strings.Builder
	b.WriteString(preBase)
	included := make([]bool, len(axiomGroups))
	text := body
	for changed := true; changed; {
		changed = false
		for i, g := range axiomGroups {
			if included[i] {
				continue
			}
			for _, t := range g.trigger {
				if strings.Contains(text, t) {
					included[i] = true
					changed = true
					text += g.text
					break
				}
			}
		}
	}
	for i, g := range axiomGroups {
		if included[i] {
			b.WriteString(g.text)
		}
	}
	return b.String()
}

func sanitize(s string) string {
	var b strings.Builder
	for _, r := range s {
		switch {
		case r >= 'a' && r <= 'z', r >= 'A' && r <= 'Z', r >= '0' && r <= '9', r == '_':
			b.WriteRune(r)
		default:
			b.WriteByte('_')
		}
	}
	return b.String()
}

// typeKey names a Go type for sorts and heap keys.
func typeKey(t types.Type) string {
	s := types.TypeString(t, func(p *types.Package) string {
		if p == nil {
			return ""
		}
		return p.Name()
	})
	return sanitize(s)
}

func (d *Decls) freshName(hint string) string {
	d.fresh++
	return fmt.Sprintf("%s!%d", sanitize(hint), d.fresh)
}

// mangle makes an SMT symbol from a name containing '!' etc.
func sym(name string) string { return "|" + name + "|" }

func (d *Decls) declareConst(name, sort string) string {
	if _, ok := d.constSeen[name]; !ok {
		d.constSeen[name] = sort
		d.consts = append(d.consts, fmt.Sprintf("(declare-const %s %s)", sym(name), sort))
	}
	return sym(name)
}

func (d *Decls) declareFun(name string, args []string, ret string) string {
	if _, ok := d.constSeen[name]; !ok {
		d.constSeen[name] = ret
		d.consts = append(d.consts, fmt.Sprintf("(declare-fun %s (%s) %s)", sym(name), strings.Join(args, " "), ret))
	}
	return sym(name)
}

func (d *Decls) freshConst(hint, sort string) string {
	return d.declareConst(d.freshName(hint), sort)
}

func (d *Decls) ensureSort(name, decl string) {
	if !d.sortSeen[name] {
		d.sortSeen[name] = true
		d.sorts = append(d.sorts, decl)
	}
}

func seqSort(elem string) string { return "Seq_" + sanitize(elem) }

func (d *Decls) ensureSeq(elem string) string {
	s := seqSort(elem)
	// a slice value: contents, length, and two ghost components - capacity and the identity of its backing array
	d.ensureSort(s, fmt.Sprintf("(declare-datatypes ((%s 0)) (((mk_%s (arr_%s (Array Int %s)) (len_%s Int) (cap_%s Int) (bk_%s Ref)))))", s, s, s, elem, s, s, s))
	return s
}

func arrSort(elem string) string { return "(Array Int " + elem + ")" }

// sortOf maps a Go type to an SMT sort, declaring datatypes on demand.
func (d *Decls) sortOf(t types.Type) string {
	switch u := t.(type) {
	case *types.Named:
		if isTimeTime(u) {
			return SInt
		}
		if isStringsBuilder(u) {
			return SStr // a strings.Builder is modelled by its accumulated content
		}
		if st, ok := u.Underlying().(*types.Struct); ok {
			return d.structSort(u, st)
		}
		return d.sortOf(u.Underlying())
	case *types.Alias:
		return d.sortOf(types.Unalias(u))
	case *types.Basic:
		switch {
		case u.Info()&types.IsBoolean != 0:
			return SBool
		case u.Info()&types.IsInteger != 0:
			return SInt
		case u.Info()&types.IsFloat != 0:
			return SReal
		case u.Info()&types.IsString != 0:
			return SStr
		case u.Kind() == types.UntypedNil:
			return SRef
		case u.Kind() == types.UnsafePointer:
			return SRef
		}
	case *types.Pointer, *types.Chan, *types.Map, *types.Interface, *types.Signature:
		return SRef
	case *types.Slice:
		if isByte(u.Elem()) {
			return SStr
		}
		return d.ensureSeq(d.sortOf(u.Elem()))
	case *types.Array:
		return arrSort(d.sortOf(u.Elem()))
	case *types.Struct:
		return d.structSort(t, u)
	case *types.TypeParam:
		name := "TP_" + sanitize(u.Obj().Name())
		d.ensureSort(name, fmt.Sprintf("(declare-sort %s 0)", name))
		if _, ok := d.zeros[name]; !ok {
			d.zeros[name] = d.declareConst("zero_"+name, name)
		}
		return name
	case *types.Tuple:
		return SRef
	}
	panic(unsupported(fmt.Sprintf("sort of type %s (%T)", t, t)))
}

func isByte(t types.Type) bool {
	b, ok := t.Underlying().(*types.Basic)
	return ok && (b.Kind() == types.Byte || b.Kind() == types.Uint8)
}

func isStringsBuilder(n *types.Named) bool {
	o := n.Obj()
	return o.Pkg() != nil && o.Pkg().Path() == "strings" && o.Name() == "Builder"
}

func isTimeTime(n *types.Named) bool {
	o := n.Obj()
	return o.Pkg() != nil && o.Pkg().Path() == "time" && o.Name() == "Time"
}

func (d *Decls) structSort(t types.Type, st *types.Struct) string {
	key := "S_" + typeKey(t)
	if _, ok := d.structs[key]; ok {
		return key
	}
	info := &structInfo{sort: key, ctor: "mk_" + key}
	d.structs[key] = info // guards recursion (only through Ref, which is fine)
	d.named[key] = t
	for i := 0; i < st.NumFields(); i++ {
		f := st.Field(i)
		info.fields = append(info.fields, f.Name())
		info.ftypes = append(info.ftypes, f.Type())
	}
	for _, ft := range info.ftypes {
		info.fsorts = append(info.fsorts, d.sortOf(ft))
	}
	var fs []string
	for i, f := range info.fields {
		fs = append(fs, fmt.Sprintf("(%s %s)", fieldSel(key, f), info.fsorts[i]))
	}
	if len(fs) == 0 {
		fs = append(fs, fmt.Sprintf("(%s Int)", fieldSel(key, "_empty")))
		info.fields = append(info.fields, "_empty")
		info.fsorts = append(info.fsorts, SInt)
		info.ftypes = append(info.ftypes, types.Typ[types.Int])
	}
	d.ensureSort(key, fmt.Sprintf("(declare-datatypes ((%s 0)) (((%s %s))))", key, info.ctor, strings.Join(fs, " ")))
	return key
}

func fieldSel(sort, field string) string { return sort + "__" + sanitize(field) }

// zeroOf returns the zero value term of a Go type.
func (d *Decls) zeroOf(t types.Type) string {
	s := d.sortOf(t)
	return d.zeroOfSort(s, t)
}

func (d *Decls) zeroOfSort(s string, t types.Type) string {
	switch s {
	case SInt:
		return "0"
	case SBool:
		return "false"
	case SReal:
		return "0.0"
	case SRef:
		return "nil"
	case SStr:
		return "str_empty"
	}
	if z, ok := d.zeros[s]; ok {
		return z
	}
	if info, ok := d.structs[s]; ok {
		var parts []string
		for i := range info.fields {
			parts = append(parts, d.zeroOfSort(info.fsorts[i], info.ftypes[i]))
		}
		return "(" + info.ctor + " " + strings.Join(parts, " ") + ")"
	}
	if strings.HasPrefix(s, "Seq_") {
		var et types.Type
		if t != nil {
			if sl, ok := t.Underlying().(*types.Slice); ok {
				et = sl.Elem()
			}
		}
		if et == nil {
			panic(unsupported("zero of seq without type " + s))
		}
		return fmt.Sprintf("(mk_%s %s 0 0 nil)", s, d.constArray(d.sortOf(et), d.zeroOf(et)))
	}
	if strings.HasPrefix(s, "(Array Int ") {
		if t != nil {
			if a, ok := t.Underlying().(*types.Array); ok {
				return d.constArray(d.sortOf(a.Elem()), d.zeroOf(a.Elem()))
			}
		}
	}
	panic(unsupported("zero of sort " + s))
}

// constArray returns an array all of whose cells hold zero (a named constant with a defining axiom,
// because cvc5 accepts (as const ...) only with value arguments).
func (d *Decls) constArray(elemSort, zero string) string {
	if zero == "0" || zero == "false" || zero == "0.0" {
		return fmt.Sprintf("((as const %s) %s)", arrSort(elemSort), zero)
	}
	name := "zeroarr_" + sanitize(elemSort)
	if _, ok := d.constSeen[name]; !ok {
		c := d.declareConst(name, arrSort(elemSort))
		d.axioms = append(d.axioms, fmt.Sprintf("(assert (forall ((i Int)) (! (= (select %s i) %s) :pattern ((select %s i)))))", c, zero, c))
	}
	return sym(name)
}

// strLit returns the Str constant for a Go string literal.
func (d *Decls) strLit(v string) string {
	if v == "" {
		return "str_empty"
	}
	if c, ok := d.lits[v]; ok {
		return c
	}
	name := "lit_" + fmt.Sprintf("%x", v)
	if len(name) > 60 {
		name = d.freshName("lit")
	}
	c := d.declareConst(name, SStr)
	d.lits[v] = c
	d.axioms = append(d.axioms, fmt.Sprintf("(assert (= (slen %s) %d))", c, len(v)))
	for i := 0; i < len(v); i++ {
		d.axioms = append(d.axioms, fmt.Sprintf("(assert (= (sat %s %d) %d))", c, i, v[i]))
	}
	return c
}

// eqLit expands s == "lit" into length and byte comparisons.
func eqLit(s string, lit string) string {
	parts := []string{fmt.Sprintf("(= (slen %s) %d)", s, len(lit))}
	for i := 0; i < len(lit); i++ {
		parts = append(parts, fmt.Sprintf("(= (sat %s %d) %d)", s, i, lit[i]))
	}
	return and(parts...)
}

func and(xs ...string) string {
	var ys []string
	for _, x := range xs {
		if x == "true" {
			continue
		}
		if x == "false" {
			return "false"
		}
		ys = append(ys, x)
	}
	switch len(ys) {
	case 0:
		return "true"
	case 1:
		return ys[0]
	}
	return "(and " + strings.Join(ys, " ") + ")"
}

func or(xs ...string) string {
	var ys []string
	for _, x := range xs {
		if x == "false" {
			continue
		}
		if x == "true" {
			return "true"
		}
		ys = append(ys, x)
	}
	switch len(ys) {
	case 0:
		return "false"
	case 1:
		return ys[0]
	}
	return "(or " + strings.Join(ys, " ") + ")"
}

func not(x string) string {
	switch x {
	case "true":
		return "false"
	case "false":
		return "true"
	}
	if strings.HasPrefix(x, "(not ") && balanced(x[5:len(x)-1]) {
		return x[5 : len(x)-1]
	}
	return "(not " + x + ")"
}

func balanced(s string) bool {
	d := 0
	inBar := false
	for _, c := range s {
		switch {
		case c == '|':
			inBar = !inBar
		case inBar:
		case c == '(':
			d++
		case c == ')':
			d--
			if d < 0 {
				return false
			}
		}
	}
	return d == 0
}

func implies(a, b string) string {
	if a == "true" {
		return b
	}
	if a == "false" || b == "true" {
		return "true"
	}
	return "(=> " + a + " " + b + ")"
}

func ite(c, a, b string) string {
	if c == "true" {
		return a
	}
	if c == "false" {
		return b
	}
	return "(ite " + c + " " + a + " " + b + ")"
}

func app(f string, args ...string) string { return "(" + f + " " + strings.Join(args, " ") + ")" }

func intLit(n int64) string {
	if n < 0 {
		return fmt.Sprintf("(- %d)", -n)
	}
	return fmt.Sprintf("%d", n)
}

// query assembles one SMT-LIB script.
func (d *Decls) queryObl(o *Obligation, wantModel bool) string {
	if len(o.Cases) == 0 {
		return d.query(o.Assume, o.Goal, wantModel)
	}
	all := append([]OblCase{{Assume: o.Assume, Goal: o.Goal}}, o.Cases...)
	// factor out the common prefix of the assumptions
	n := len(all[0].Assume)
	for _, c := range all[1:] {
		i := 0
		for i < n && i < len(c.Assume) && c.Assume[i] == all[0].Assume[i] {
			i++
		}
		n = i
	}
	common := all[0].Assume[:n]
	var alts []string
	for _, c := range all {
		if c.Goal == "true" {
			continue
		}
		if n > len(c.Assume) {
			n = len(c.Assume)
		}
		parts := append([]string(nil), c.Assume[n:]...)
		parts = append(parts, not(c.Goal))
		alts = append(alts, and(parts...))
	}
	return d.query(common, not(or(alts...)), wantModel)
}

func (d *Decls) query(assumptions []string, goal string, wantModel bool) string {
	var body strings.Builder
	for _, a := range assumptions {
		body.WriteString("(assert " + a + ")\n")
	}
	body.WriteString("(assert " + not(goal) + ")\n")
	// keep only the definitional axioms (shared terms, literals) that the query can reach
	used := body.String()
	keep := make([]bool, len(d.axioms))
	for changed := true; changed; {
		changed = false
		for i, a := range d.axioms {
			if keep[i] {
				continue
			}
			if c := definedConst(a); c != "" && !strings.Contains(used, c) {
				continue
			}
			keep[i] = true
			changed = true
			used += a
		}
	}
	var ax strings.Builder
	for i, a := range d.axioms {
		if keep[i] {
			ax.WriteString(a + "\n")
		}
	}
	var b strings.Builder
	if wantModel {
		b.WriteString("(set-option :produce-models true)\n")
	}
	b.WriteString("(set-logic ALL)\n")
	b.WriteString(preambleFor(used))
	for _, s := range d.sorts {
		b.WriteString(s + "\n")
	}
	for _, c := range d.consts {
		b.WriteString(c + "\n")
	}
	b.WriteString(ax.String())
	b.WriteString(body.String())
	b.WriteString("(check-sat)\n")
	if wantModel {
		b.WriteString("(get-model)\n")
	}
	return b.String()
}

// definedConst returns the constant an axiom of the form (assert (= c term)) or (assert (= (f c ...) ...)) defines.
func definedConst(ax string) string {
	const p = "(assert (= "
	if strings.HasPrefix(ax, "(assert (forall ") {
		if i := strings.Index(ax, "(= (|spec_"); i >= 0 {
			r := ax[i+4:]
			if j := strings.Index(r[1:], "|"); j >= 0 {
				return r[:j+2]
			}
		}
		if i := strings.Index(ax, "(= (select |zeroarr_"); i >= 0 {
			r := ax[i+11:]
			if j := strings.Index(r[1:], "|"); j >= 0 {
				return r[:j+2]
			}
		}
		return ""
	}
	if !strings.HasPrefix(ax, p) {
		return ""
	}
	rest := ax[len(p):]
	if strings.HasPrefix(rest, "|") {
		if j := strings.Index(rest[1:], "|"); j >= 0 {
			return rest[:j+2]
		}
	}
	if strings.HasPrefix(ax, "(assert (forall ") {
		if i := strings.Index(ax, "(= (|spec_"); i >= 0 {
			r := ax[i+4:]
			if j := strings.Index(r[1:], "|"); j >= 0 {
				return r[:j+2]
			}
		}
	}
	if strings.HasPrefix(rest, "(slen |") || strings.HasPrefix(rest, "(sat |") {
		i := strings.Index(rest, "|")
		if j := strings.Index(rest[i+1:], "|"); j >= 0 {
			return rest[i : i+j+2]
		}
	}
	return ""
}

func sortedKeys[V any](m map[string]V) []string {
	ks := make([]string, 0, len(m))
	for k := range m {
		ks = append(ks, k)
	}
	sort.Strings(ks)
	return ks
}

type unsupportedErr struct{ msg string }

func (u unsupportedErr) Error() string { return "unsupported: " + u.msg }
func unsupported(msg string) error      { return unsupportedErr{msg} }
