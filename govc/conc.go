package main

// Mutex ghost state and lock discipline, defer / recover, sync.Once.

import (
	"fmt"
	"go/ast"
	"go/types"
	"strings"
)

func locKey(l *Loc) string {
	switch l.kind {
	case locCell:
		return l.ref
	case locField:
		return locKey(l.base) + "." + l.field
	case locVar:
		return "var:" + l.obj.Name()
	case locElem:
		return locKey(l.base) + "[]"
	}
	return "?"
}

func (fx *Fx) guardOf(t types.Type) *Guard {
	n, ok := t.(*types.Named)
	if !ok {
		return nil
	}
	pkg := ""
	if n.Obj().Pkg() != nil {
		pkg = n.Obj().Pkg().Name() + "."
	}
	return fx.v.contracts.Guards[pkg+n.Obj().Name()]
}

func (fx *Fx) lockState(st *State, key string) string {
	if st.locks == nil {
		st.locks = map[string]string{}
	}
	if v, ok := st.locks[key]; ok {
		return v
	}
	return "0"
}

// guardRead emits the lock obligation for reading field f of the struct at base.
func (fx *Fx) guardRead(st *State, base *Loc, t types.Type, field string) string {
	g := fx.guardOf(t)
	if g == nil || !g.Fields[field] {
		return ""
	}
	key := locKey(base) + "." + g.Mutex
	fx.oblige(st, "lock", "read("+g.Type+"."+field+")", app(">=", fx.lockState(st, key), "1"), "guarded field read without holding "+g.Mutex)
	return key
}

// guardWrite emits the lock obligation for a write through a location that passes a guarded field.
func (fx *Fx) guardWrite(st *State, l *Loc) {
	for cur := l; cur != nil; cur = cur.base {
		if cur.kind == locField && cur.base != nil {
			if g := fx.guardOf(cur.base.T); g != nil && g.Fields[cur.field] {
				key := locKey(cur.base) + "." + g.Mutex
				fx.oblige(st, "lock", "write("+g.Type+"."+cur.field+")", app("=", fx.lockState(st, key), "2"), "guarded field written without holding "+g.Mutex+" exclusively")
			}
		}
	}
}

func (fx *Fx) guardMapWrite(st *State, mv Val, what string) {
	if mv.Guard != "" && fx.inSpec == 0 {
		fx.oblige(st, "lock", "mapwrite("+what+")", app("=", fx.lockState(st, mv.Guard), "2"), "map reached through a guarded field modified without the write lock")
	}
}

// mutexCall models Lock/Unlock/RLock/RUnlock on sync.Mutex / sync.RWMutex.
func (fx *Fx) mutexCall(st *State, name string, recvExpr ast.Expr) bool {
	var want, set string
	switch {
	case strings.HasSuffix(name, ").Lock"):
		want, set = "0", "2"
	case strings.HasSuffix(name, ").Unlock"):
		want, set = "2", "0"
	case strings.HasSuffix(name, ").RLock"):
		want, set = "0", "1"
	case strings.HasSuffix(name, ").RUnlock"):
		want, set = "1", "0"
	default:
		return false
	}
	p := fx.evalPlace(st, recvExpr, false)
	if p.loc == nil {
		panic(unsupported("mutex that is not a location"))
	}
	key := locKey(p.loc)
	fx.oblige(st, "lock", fmt.Sprintf("%s(%s)", name[strings.LastIndex(name, ".")+1:], exprText(recvExpr)), app("=", fx.lockState(st, key), want), "mutex operation in the wrong lock state")
	if st.locks == nil {
		st.locks = map[string]string{}
	}
	st.locks[key] = set
	fx.assumed["sync.Mutex/RWMutex give mutual exclusion (lock discipline is checked, the scheduler is not modelled)"] = true
	return true
}

// ---------- defer / recover ----------

func (fx *Fx) execDefer(st *State, x *ast.DeferStmt) []Outcome {
	st.defers = append(st.defers, x)
	fx.note("deferred calls are evaluated when the function returns (their arguments are re-evaluated then)")
	return normal(st)
}

// runDefers executes the deferred calls of the current frame (those beyond base) in LIFO order.
func (fx *Fx) runDefers(st *State, base int) []*State {
	if len(st.defers) <= base {
		return []*State{st}
	}
	d := st.defers[len(st.defers)-1]
	st.defers = st.defers[:len(st.defers)-1]
	st.recoverDepth = fx.depth + 1 // recover() is effective only when called directly by the deferred function
	var out []*State
	for _, r := range fx.evalCallMulti(st, d.Call) {
		if r.kind == kPanic {
			panic(unsupported("panic inside a deferred call"))
		}
		out = append(out, fx.runDefers(r.st, base)...)
	}
	return out
}

func (fx *Fx) recoverCall(st *State) Val {
	t := types.NewInterfaceType(nil, nil)
	if st.panicVal == "" || fx.depth != st.recoverDepth {
		return Val{T: t, S: SRef, X: "nil"}
	}
	v := Val{T: t, S: SRef, X: st.panicVal}
	st.panicVal = ""
	st.panicked = true // recovered: the frame returns normally with its named results
	return v
}

// ---------- contexts ----------

// noteCtxDone: receiving from ctx.Done() means the context is done; ctx.Err() is then non-nil.
func (fx *Fx) noteCtxDone(st *State, c Val) {
	const pre = "(|ctxdone_chan| "
	if strings.HasPrefix(c.X, pre) && strings.HasSuffix(c.X, ")") {
		ctx := c.X[len(pre) : len(c.X)-1]
		g := st.ghost["ctxdone"]
		if g.X == "" {
			g = Val{S: "(Array Ref Bool)", X: fx.d.declareConst("ctxdone@0", "(Array Ref Bool)")}
		}
		st.ghost["ctxdone"] = Val{S: g.S, X: app("store", g.X, ctx, "true")}
		fx.assumed["context.Context: once Done() is closed Err() is non-nil"] = true
	}
}

func (fx *Fx) ctxMethod(st *State, recv string, meth string, sig *types.Signature) ([]Val, bool) {
	switch meth {
	case "Done":
		f := fx.d.declareFun("ctxdone_chan", []string{SRef}, SRef)
		return []Val{{T: sig.Results().At(0).Type(), S: SRef, X: app(f, recv)}}, true
	case "Err":
		r := fx.freshVal(st, "ctxerr", sig.Results().At(0).Type())
		g := st.ghost["ctxdone"]
		if g.X == "" {
			g = Val{S: "(Array Ref Bool)", X: fx.d.declareConst("ctxdone@0", "(Array Ref Bool)")}
			st.ghost["ctxdone"] = g
		}
		st.assume(implies(app("select", g.X, recv), not(app("=", r.X, "nil"))))
		fx.older(st, r.X)
		// ghost: the length of the call trace when the context's error was last read (lastctxerr() in contracts):
		// Err() changes over time, so "judged against the error as it is after X" is a statement about this position
		st.ghost["ctxerrat"] = Val{T: types.Typ[types.Int], S: SInt, X: fx.trCount(st)}
		st.ghost["ctxerrval"] = r // lastctxerrval() in contracts: the value that call returned
		return []Val{r}, true
	}
	return nil, false
}

// ---------- channel message invariants (declared per struct field holding the channel) ----------

// chanInvOf finds the invariant declared for the struct field the channel expression reads (x.f).
func (fx *Fx) chanInvOf(e ast.Expr) *ChanInv {
	se, ok := ast.Unparen(e).(*ast.SelectorExpr)
	if !ok {
		return nil
	}
	sel, ok := fx.pkg.info.Selections[se]
	if !ok || sel.Kind() != types.FieldVal {
		return nil
	}
	t := sel.Recv()
	if p, ok := t.Underlying().(*types.Pointer); ok {
		t = p.Elem()
	}
	n, ok := t.(*types.Named)
	if !ok {
		return nil
	}
	return fx.v.contracts.ChanInvs[fx.pkg.name+"."+n.Obj().Name()+"."+se.Sel.Name]
}

func (fx *Fx) checkChanInvariantExpr(st *State, chanExpr ast.Expr, v Val) {
	ci := fx.chanInvOf(chanExpr)
	if ci == nil {
		return
	}
	saved, had := st.bound[ci.Var]
	st.bound[ci.Var] = v
	for _, cl := range ci.Send {
		g := fx.specEval(st, fx.pkg, nil, nil, cl.Expr)
		fx.oblige(st, "chan", "msginv("+exprText(chanExpr)+"):"+cl.Label, g, cl.Text)
	}
	if had {
		st.bound[ci.Var] = saved
	} else {
		delete(st.bound, ci.Var)
	}
}

func (fx *Fx) assumeChanInvariantExpr(st *State, chanExpr ast.Expr, v Val, ok string) {
	ci := fx.chanInvOf(chanExpr)
	if ci == nil {
		return
	}
	saved, had := st.bound[ci.Var]
	st.bound[ci.Var] = v
	st.assume(ok) // channels with a declared message invariant are never closed: every receive gets a sent value
	for _, cl := range ci.Recv {
		st.assume(fx.specEval(st, fx.pkg, nil, nil, cl.Expr))
	}
	fx.assumed["channel message invariant of "+exprText(chanExpr)+": assumed at the receive; its sender-side part is an obligation at every send"] = true
	if had {
		st.bound[ci.Var] = saved
	} else {
		delete(st.bound, ci.Var)
	}
}

func (fx *Fx) checkChanInvariant(st *State, c, v Val, what string) {}

func (fx *Fx) assumeChanInvariant(st *State, c, v Val, ok string, what string) {}
