package main

// Expression evaluation for code (typed AST) and for contract expressions (untyped AST).

import (
	"fmt"
	"go/ast"
	"go/constant"
	"go/token"
	"go/types"
	"strconv"
	"strings"
)

type Place struct {
	loc   *Loc
	val   Val
	guard string
}

func (fx *Fx) get(st *State, p Place) Val {
	if p.loc != nil {
		v := fx.load(st, p.loc)
		if p.guard != "" {
			v.Guard = p.guard
		}
		return v
	}
	if p.guard != "" {
		p.val.Guard = p.guard
	}
	return p.val
}

func (fx *Fx) eval(st *State, e ast.Expr, spec bool) Val {
	return fx.get(st, fx.evalPlace(st, e, spec))
}

func (fx *Fx) boolTerm(st *State, e ast.Expr, spec bool) string {
	v := fx.eval(st, e, spec)
	if v.S != SBool {
		panic(unsupported(fmt.Sprintf("expected Bool, got %s in %s", v.S, exprText(e))))
	}
	return v.X
}

func exprText(e ast.Expr) string { return types.ExprString(e) }

func (fx *Fx) constVal(tv types.TypeAndValue) (Val, bool) {
	if tv.Value == nil {
		return Val{}, false
	}
	t := tv.Type
	switch tv.Value.Kind() {
	case constant.Bool:
		if constant.BoolVal(tv.Value) {
			return Val{T: t, S: SBool, X: "true"}, true
		}
		return Val{T: t, S: SBool, X: "false"}, true
	case constant.String:
		s := constant.StringVal(tv.Value)
		return Val{T: t, S: SStr, X: fx.d.strLit(s), Lit: &s}, true
	case constant.Int:
		if b, ok := t.Underlying().(*types.Basic); ok && b.Info()&types.IsFloat != 0 {
			return Val{T: t, S: SReal, X: realLit(tv.Value)}, true
		}
		return Val{T: t, S: SInt, X: bigIntLit(tv.Value)}, true
	case constant.Float:
		if b, ok := t.Underlying().(*types.Basic); ok && b.Info()&types.IsInteger != 0 {
			return Val{T: t, S: SInt, X: bigIntLit(constant.ToInt(tv.Value))}, true
		}
		return Val{T: t, S: SReal, X: realLit(tv.Value)}, true
	}
	return Val{}, false
}

func bigIntLit(v constant.Value) string {
	s := v.ExactString()
	if strings.HasPrefix(s, "-") {
		return "(- " + s[1:] + ")"
	}
	return s
}

func realLit(v constant.Value) string {
	num := constant.Num(v)
	den := constant.Denom(v)
	n := num.ExactString()
	neg := strings.HasPrefix(n, "-")
	if neg {
		n = n[1:]
	}
	r := "(/ " + n + ".0 " + den.ExactString() + ".0)"
	if den.ExactString() == "1" {
		r = n + ".0"
	}
	if neg {
		r = "(- " + r + ")"
	}
	return r
}

func (fx *Fx) evalPlace(st *State, e ast.Expr, spec bool) Place {
	if !spec {
		if tv, ok := fx.pkg.info.Types[e]; ok && tv.Value != nil {
			if v, ok := fx.constVal(tv); ok {
				return Place{val: v}
			}
		}
	}
	switch x := e.(type) {
	case *ast.ParenExpr:
		return fx.evalPlace(st, x.X, spec)
	case *ast.Ident:
		return fx.evalIdent(st, x, spec)
	case *ast.BasicLit:
		return Place{val: fx.basicLit(x)}
	case *ast.SelectorExpr:
		return fx.evalSelector(st, x, spec)
	case *ast.StarExpr:
		p := fx.eval(st, x.X, spec)
		fx.nonNil(st, p, exprText(x.X), spec)
		return Place{loc: fx.derefLoc(st, p)}
	case *ast.IndexExpr:
		return fx.evalIndex(st, x, spec)
	case *ast.UnaryExpr:
		return Place{val: fx.evalUnary(st, x, spec)}
	case *ast.BinaryExpr:
		return Place{val: fx.evalBinary(st, x, spec)}
	case *ast.CallExpr:
		if id, ok := x.Fun.(*ast.Ident); ok && spec && id.Name == "scannercell" && len(x.Args) == 1 {
			sv := fx.eval(st, x.Args[0], true)
			fx.scannerCell(st, sv.X)
			return Place{loc: &Loc{kind: locCell, key: "ghost_scanner", ref: sv.X, T: sv.T, S: scannerSort}}
		}
		if id, ok := x.Fun.(*ast.Ident); ok && spec && id.Name == "chancell" && len(x.Args) == 1 {
			cv := fx.eval(st, x.Args[0], true)
			fx.chanCell(st, cv.X)
			return Place{loc: &Loc{kind: locCell, key: "ghost_chan", ref: cv.X, T: cv.T, S: chanSort}}
		}
		if id, ok := x.Fun.(*ast.Ident); ok && spec && id.Name == "mapcell" && len(x.Args) == 1 {
			// mapcell(m): the contents of map m, as a location (for modifies clauses)
			mv := fx.eval(st, x.Args[0], true)
			m, ok := mv.T.Underlying().(*types.Map)
			if !ok {
				panic(unsupported("mapcell of a non-map"))
			}
			cell, _, _ := fx.mapSort(m)
			fx.heapTerm(st, "map_"+cell, cell)
			return Place{loc: &Loc{kind: locCell, key: "map_" + cell, ref: mv.X, T: mv.T, S: cell}}
		}
		vs := fx.evalCall(st, x, spec)
		if len(vs) == 0 {
			return Place{val: Val{S: SBool, X: "true"}}
		}
		return Place{val: vs[0]}
	case *ast.SliceExpr:
		return Place{val: fx.evalSlice(st, x, spec)}
	case *ast.CompositeLit:
		return Place{val: fx.evalComposite(st, x, spec)}
	case *ast.FuncLit:
		cl := fx.d.freshConst("closure", SRef)
		st.assume(not(app("=", cl, "nil"))) // a function literal is never nil
		return Place{val: Val{T: fx.typeOf(x), S: SRef, X: cl, Fn: &Closure{Lit: x, Env: st, Key: fx.litKey(x)}}}
	case *ast.TypeAssertExpr:
		return Place{val: fx.evalTypeAssert(st, x, false)[0]}
	}
	panic(unsupported(fmt.Sprintf("expression %T %s", e, exprText(e))))
}

func (fx *Fx) typeOf(e ast.Expr) types.Type {
	if tv, ok := fx.pkg.info.Types[e]; ok {
		return tv.Type
	}
	if id, ok := e.(*ast.Ident); ok {
		if o := fx.pkg.info.ObjectOf(id); o != nil {
			return o.Type()
		}
	}
	return nil
}

func (fx *Fx) basicLit(x *ast.BasicLit) Val {
	switch x.Kind {
	case token.INT:
		n, err := strconv.ParseInt(x.Value, 0, 64)
		if err != nil {
			bv := constant.MakeFromLiteral(x.Value, token.INT, 0)
			if bv.Kind() != constant.Int {
				panic(unsupported("int literal " + x.Value))
			}
			return Val{T: types.Typ[types.UntypedInt], S: SInt, X: bigIntLit(bv)}
		}
		return Val{T: types.Typ[types.UntypedInt], S: SInt, X: intLit(n)}
	case token.FLOAT:
		v := constant.MakeFromLiteral(x.Value, token.FLOAT, 0)
		return Val{T: types.Typ[types.UntypedFloat], S: SReal, X: realLit(v)}
	case token.CHAR:
		r, _, _, err := strconv.UnquoteChar(x.Value[1:len(x.Value)-1], '\'')
		if err != nil {
			panic(unsupported("char literal " + x.Value))
		}
		return Val{T: types.Typ[types.UntypedRune], S: SInt, X: fmt.Sprint(int(r))}
	case token.STRING:
		s, err := strconv.Unquote(x.Value)
		if err != nil {
			panic(unsupported("string literal " + x.Value))
		}
		return Val{T: types.Typ[types.String], S: SStr, X: fx.d.strLit(s), Lit: &s}
	}
	panic(unsupported("literal " + x.Value))
}

func (fx *Fx) evalIdent(st *State, x *ast.Ident, spec bool) Place {
	switch x.Name {
	case "nil":
		return Place{val: Val{S: SRef, X: "nil"}}
	case "true", "false":
		return Place{val: Val{T: types.Typ[types.Bool], S: SBool, X: x.Name}}
	}
	if spec {
		if v, ok := st.bound[x.Name]; ok {
			return Place{val: v}
		}
		if g, ok := st.ghost[x.Name]; ok {
			return Place{val: g}
		}
		if o, ok := st.names[x.Name]; ok {
			if _, ok := st.env[o]; ok {
				return Place{loc: &Loc{kind: locVar, obj: o, T: o.Type()}}
			}
		}
		// a local that has gone out of scope (step clauses talk about the iteration's variables): the latest declared one
		var best types.Object
		for o := range st.env {
			if o.Name() == x.Name && (best == nil || o.Pos() > best.Pos()) {
				best = o
			}
		}
		if best != nil {
			return Place{loc: &Loc{kind: locVar, obj: best, T: best.Type()}}
		}
		if x.Name == "iterk" && st.iterK != "" {
			return Place{val: Val{T: types.Typ[types.Int], S: SInt, X: st.iterK}}
		}
		if o := fx.pkg.types.Scope().Lookup(x.Name); o != nil {
			return fx.objectPlace(st, o)
		}
		panic(unsupported("contract identifier " + x.Name + " not in scope"))
	}
	o := fx.pkg.info.ObjectOf(x)
	if o == nil {
		panic(unsupported("unresolved identifier " + x.Name))
	}
	if _, ok := st.env[o]; ok {
		return Place{loc: &Loc{kind: locVar, obj: o, T: o.Type()}}
	}
	return fx.objectPlace(st, o)
}

// objectPlace evaluates package-level objects.
func (fx *Fx) objectPlace(st *State, o types.Object) Place {
	switch ob := o.(type) {
	case *types.Const:
		if v, ok := fx.constVal(types.TypeAndValue{Type: ob.Type(), Value: ob.Val()}); ok {
			return Place{val: v}
		}
	case *types.Nil:
		return Place{val: Val{S: SRef, X: "nil"}}
	case *types.Var:
		if ob.Parent() == ob.Pkg().Scope() || ob.Pkg() != fx.pkg.types {
			return Place{val: fx.globalVar(st, ob)}
		}
		panic(unsupported("variable " + ob.Name() + " has no value on this path"))
	case *types.Func:
		x := fx.d.declareConst("fn_"+sanitize(ob.FullName()), SRef)
		st.assume(not(app("=", x, "nil"))) // a declared function is never a nil function value
		return Place{val: Val{T: ob.Type(), S: SRef, X: x}}
	}
	panic(unsupported(fmt.Sprintf("object %s (%T)", o.Name(), o)))
}

// globalVar models a package-level variable as a constant (assumption: never reassigned).
func (fx *Fx) globalVar(st *State, ob *types.Var) Val {
	fx.assumed["package-level variable "+ob.Pkg().Name()+"."+ob.Name()+" is never reassigned"] = true
	if lit, ok := fx.v.globalLiteral(ob); ok {
		return Val{T: ob.Type(), S: SStr, X: fx.d.strLit(lit), Lit: &lit}
	}
	s := fx.d.sortOf(ob.Type())
	name := "g_" + ob.Pkg().Name() + "_" + ob.Name()
	_, seen := fx.d.constSeen[name]
	c := fx.d.declareConst(name, s)
	if !seen && s == SRef && (isErrorType(ob.Type()) || isPointer(ob.Type())) {
		fx.d.axioms = append(fx.d.axioms, "(assert "+not(app("=", c, "nil"))+")")
		for _, other := range fx.errGlobals {
			fx.d.axioms = append(fx.d.axioms, "(assert "+not(app("=", c, other))+")")
		}
		fx.errGlobals = append(fx.errGlobals, c)
		fx.d.declareFun("birth", []string{SRef}, SInt)
		fx.d.axioms = append(fx.d.axioms, "(assert (<= ("+sym("birth")+" "+c+") 0))")
	}
	v := Val{T: ob.Type(), S: s, X: c}
	return v
}

func isErrorType(t types.Type) bool {
	return types.Identical(t, types.Universe.Lookup("error").Type())
}

func isPointer(t types.Type) bool {
	_, ok := t.Underlying().(*types.Pointer)
	return ok
}

func (fx *Fx) nonNil(st *State, p Val, what string, spec bool) {
	if spec || fx.inSpec > 0 {
		return
	}
	fx.oblige(st, "nil", "deref("+what+")", not(app("=", p.X, "nil")), "")
	st.assume(not(app("=", p.X, "nil")))
}

// walkFields follows a field index path from a place, dereferencing pointers on the way.
func (fx *Fx) walkFields(st *State, p Place, t types.Type, path []int, what string, spec bool) Place {
	cur := p
	curT := t
	for _, idx := range path {
		if pt, ok := curT.Underlying().(*types.Pointer); ok {
			pv := fx.get(st, cur)
			if pv.T == nil {
				pv.T = curT
			}
			fx.nonNil(st, pv, what, spec)
			cur = Place{loc: fx.derefLoc(st, pv)}
			curT = pt.Elem()
		}
		stt, ok := curT.Underlying().(*types.Struct)
		if !ok {
			panic(unsupported(fmt.Sprintf("field path through %s", curT)))
		}
		f := stt.Field(idx)
		guard := ""
		if !spec && fx.inSpec == 0 && cur.loc != nil {
			guard = fx.guardRead(st, cur.loc, curT, f.Name())
		}
		if cur.loc != nil {
			cur = Place{loc: &Loc{kind: locField, base: cur.loc, field: f.Name(), T: f.Type()}, guard: guard}
		} else {
			cur = Place{val: fx.fieldOf(st, cur.val, f.Name(), f.Type())}
		}
		curT = f.Type()
	}
	return cur
}

func (fx *Fx) evalSelector(st *State, x *ast.SelectorExpr, spec bool) Place {
	if !spec {
		if sel, ok := fx.pkg.info.Selections[x]; ok {
			switch sel.Kind() {
			case types.FieldVal:
				base := fx.evalPlace(st, x.X, spec)
				return fx.walkFields(st, base, sel.Recv(), sel.Index(), exprText(x.X), spec)
			case types.MethodVal:
				fn := sel.Obj().(*types.Func)
				rp := fx.evalPlace(st, x.X, spec)
				if len(sel.Index()) > 1 {
					rp = fx.walkFields(st, rp, sel.Recv(), sel.Index()[:len(sel.Index())-1], exprText(x.X), spec)
				}
				var recv Val
				if _, isIface := sel.Recv().Underlying().(*types.Interface); isIface {
					recv = fx.get(st, rp)
				} else {
					recv = fx.receiverValue(st, rp, fn.Type().(*types.Signature), exprText(x.X), spec)
				}
				mv := fx.d.freshConst("methodval_"+fn.Name(), SRef)
				st.assume(not(app("=", mv, "nil"))) // a method value is never nil
				return Place{val: Val{T: sel.Type(), S: SRef, X: mv, Fn: &Closure{Recv: &recv, Key: fx.v.funcKey(fn)}}}
			}
			panic(unsupported("selection kind in " + exprText(x)))
		}
		// qualified identifier
		if o := fx.pkg.info.Uses[x.Sel]; o != nil {
			return fx.objectPlace(st, o)
		}
		panic(unsupported("selector " + exprText(x)))
	}
	// contract mode: package-qualified name?
	if id, ok := x.X.(*ast.Ident); ok {
		if _, isBound := st.bound[id.Name]; !isBound {
			if _, isLocal := st.names[id.Name]; !isLocal {
				if p := fx.v.importedPkg(fx.pkg, id.Name); p != nil {
					o := p.Scope().Lookup(x.Sel.Name)
					if o == nil {
						panic(unsupported("no " + x.Sel.Name + " in package " + id.Name))
					}
					return fx.objectPlace(st, o)
				}
			}
		}
	}
	base := fx.evalPlace(st, x.X, spec)
	var bt types.Type
	if base.loc != nil {
		bt = base.loc.T
	} else {
		bt = base.val.T
	}
	if bt == nil {
		panic(unsupported("selector on value without Go type: " + exprText(x)))
	}
	obj, path, _ := types.LookupFieldOrMethod(bt, true, fx.pkg.types, x.Sel.Name)
	if obj == nil {
		// try across packages for unexported fields of the other package
		for _, p := range fx.v.pkgs {
			if obj, path, _ = types.LookupFieldOrMethod(bt, true, p.types, x.Sel.Name); obj != nil {
				break
			}
		}
	}
	if v, ok := obj.(*types.Var); ok && v.IsField() {
		return fx.walkFields(st, base, bt, path, exprText(x.X), spec)
	}
	panic(unsupported("contract selector " + exprText(x)))
}

func (fx *Fx) evalIndex(st *State, x *ast.IndexExpr, spec bool) Place {
	if spec {
		bv := fx.eval(st, x.X, spec)
		if bv.T != nil {
			if m, isMap := bv.T.Underlying().(*types.Map); isMap {
				k := fx.eval(st, x.Index, spec)
				return Place{val: fx.mapGet(st, bv, m, k)}
			}
		}
	}
	if !spec {
		if tv, ok := fx.pkg.info.Types[x.X]; ok {
			if _, isSig := tv.Type.(*types.Signature); isSig {
				return fx.evalPlace(st, x.X, spec) // generic instantiation
			}
			if m, isMap := tv.Type.Underlying().(*types.Map); isMap {
				mv := fx.eval(st, x.X, spec)
				k := fx.eval(st, x.Index, spec)
				return Place{val: fx.mapGet(st, mv, m, k), guard: mv.Guard}
			}
		}
	}
	base := fx.evalPlace(st, x.X, spec)
	idx := fx.eval(st, x.Index, spec)
	var bt types.Type
	var bv Val
	if base.loc != nil {
		bt = base.loc.T
		bv = fx.load(st, base.loc)
	} else {
		bt = base.val.T
		bv = base.val
	}
	if bt != nil {
		if pt, ok := bt.Underlying().(*types.Pointer); ok { // pointer to array
			l := fx.derefLoc(st, bv)
			base = Place{loc: l}
			bt = pt.Elem()
			bv = fx.load(st, l)
		}
		if m, isMap := bt.Underlying().(*types.Map); isMap {
			return Place{val: fx.mapGet(st, bv, m, idx)}
		}
	}
	// bounds obligation
	if !spec && fx.inSpec == 0 {
		var ln string
		if a, ok := bt.Underlying().(*types.Array); ok {
			ln = fmt.Sprint(a.Len())
		} else {
			ln = fx.seqLen(bv)
		}
		g := and(app("<=", "0", idx.X), app("<", idx.X, ln))
		fx.oblige(st, "bounds", exprText(x), g, "")
		st.assume(g)
	}
	et := elemType(bt)
	if base.loc != nil && bv.S != SStr {
		return Place{loc: &Loc{kind: locElem, base: base.loc, idx: idx.X, T: et}}
	}
	return Place{val: fx.indexVal(st, bv, idx.X, et)}
}

func (fx *Fx) evalSlice(st *State, x *ast.SliceExpr, spec bool) Val {
	b := fx.eval(st, x.X, spec)
	if b.T != nil {
		if pt, ok := b.T.Underlying().(*types.Pointer); ok {
			b = fx.load(st, fx.derefLoc(st, b))
			_ = pt
		}
	}
	lo := "0"
	if x.Low != nil {
		lo = fx.eval(st, x.Low, spec).X
	}
	var ln string
	isArr := strings.HasPrefix(b.S, "(Array Int ")
	if isArr {
		ln = fmt.Sprint(b.T.Underlying().(*types.Array).Len())
	} else {
		ln = fx.seqLen(b)
	}
	hi := ln
	if x.High != nil {
		hi = fx.eval(st, x.High, spec).X
		// s[:len(s)] is s
		if c, ok := ast.Unparen(x.High).(*ast.CallExpr); ok && len(c.Args) == 1 {
			if id, ok := c.Fun.(*ast.Ident); ok && id.Name == "len" && exprText(c.Args[0]) == exprText(x.X) {
				hi = ln
			}
		}
	}

	if !spec && fx.inSpec == 0 {
		g := and(app("<=", "0", lo), app("<=", lo, hi), app("<=", hi, ln))
		fx.oblige(st, "bounds", exprText(x), g, "")
		st.assume(g)
	}
	if b.S == SStr {
		if lo == "0" && hi == ln {
			return b
		}
		return Val{T: b.T, S: SStr, X: app("ssub", b.X, lo, hi)}
	}
	if !isArr && lo == "0" && hi == ln && x.Max == nil {
		return b
	}
	if !isArr && lo == "0" && hi == ln && x.Max != nil {
		// s[:len(s):max]: same elements and backing array, capacity limited
		mx := fx.eval(st, x.Max, spec).X
		if !spec && fx.inSpec == 0 {
			g := and(app("<=", hi, mx), app("<=", mx, app("cap_"+b.S, b.X)))
			fx.oblige(st, "bounds", exprText(x)+":max", g, "")
			st.assume(g)
		}
		return Val{T: b.T, S: b.S, X: app("mk_"+b.S, app("arr_"+b.S, b.X), ln, mx, app("bk_"+b.S, b.X))}
	}
	// generic sequences / arrays: fresh result defined over the result index
	var es string
	var rt types.Type
	if isArr {
		es = strings.TrimSuffix(strings.TrimPrefix(b.S, "(Array Int "), ")")
		et := elemType(b.T)
		rt = types.NewSlice(et)
		if isByte(et) {
			// byte arrays sliced into []byte become Str
			r := fx.d.freshConst("slice", SStr)
			st.assume(app("=", app("slen", r), app("-", hi, lo)))
			st.assume(fmt.Sprintf("(forall ((i Int)) (! (=> (and (<= 0 i) (< i (- %s %s))) (= (sat %s i) (select %s (+ %s i)))) :pattern ((sat %s i))))", hi, lo, r, b.X, lo, r))
			return Val{T: rt, S: SStr, X: r}
		}
	} else {
		es = fx.elemSort(b)
		rt = b.T
	}
	ss := fx.d.ensureSeq(es)
	r := fx.d.freshConst("slice", ss)
	srcArr := b.X
	if !isArr {
		srcArr = app("arr_"+b.S, b.X)
	}
	st.assume(app("=", app("len_"+ss, r), app("-", hi, lo)))
	if !isArr {
		capT := app("-", app("cap_"+b.S, b.X), lo)
		if x.Max != nil {
			capT = app("-", fx.eval(st, x.Max, spec).X, lo)
		}
		st.assume(app("=", app("cap_"+ss, r), capT))
		st.assume(app("=", app("bk_"+ss, r), app("bk_"+b.S, b.X)))
	} else {
		st.assume(app("=", app("cap_"+ss, r), app("-", ln, lo)))
	}
	st.assume(fmt.Sprintf("(forall ((i Int)) (! (=> (and (<= 0 i) (< i (- %s %s))) (= (select (arr_%s %s) i) (select %s (+ %s i)))) :pattern ((select (arr_%s %s) i))))", hi, lo, ss, r, srcArr, lo, ss, r))
	return Val{T: rt, S: ss, X: r}
}

func (fx *Fx) evalUnary(st *State, x *ast.UnaryExpr, spec bool) Val {
	switch x.Op {
	case token.AND:
		if cl, ok := x.X.(*ast.CompositeLit); ok {
			v := fx.evalComposite(st, cl, spec)
			r := fx.alloc(st, typeKey(v.T))
			l := &Loc{kind: locCell, key: cellKey(v.T), ref: r, T: v.T}
			fx.store(st, l, v)
			return Val{T: types.NewPointer(v.T), S: SRef, X: r}
		}
		p := fx.evalPlace(st, x.X, spec)
		if p.loc == nil {
			panic(unsupported("address of non-addressable " + exprText(x.X)))
		}
		if p.loc.kind == locVar {
			// address of a local: promote the variable to a heap cell
			return fx.promoteLocal(st, p.loc)
		}
		return fx.addrOf(st, p.loc)
	case token.NOT:
		return Val{T: types.Typ[types.Bool], S: SBool, X: not(fx.boolTerm(st, x.X, spec))}
	case token.SUB:
		v := fx.eval(st, x.X, spec)
		return Val{T: v.T, S: v.S, X: app("-", v.X)}
	case token.ADD:
		return fx.eval(st, x.X, spec)
	case token.ARROW:
		return fx.chanRecv(st, x, spec)
	}
	panic(unsupported("unary " + x.Op.String()))
}

// promoteLocal turns a local variable whose address is taken into a heap cell.
func (fx *Fx) promoteLocal(st *State, l *Loc) Val {
	cur := st.env[l.obj]
	key := "local_" + typeKey(l.obj.Type())
	if cur.Root == "@local" {
		return Val{T: types.NewPointer(l.obj.Type()), S: SRef, X: cur.X, Root: key, PT: l.obj.Type()}
	}
	r := fx.alloc(st, "local_"+l.obj.Name())
	fx.store(st, &Loc{kind: locCell, key: key, ref: r, T: l.obj.Type()}, cur)
	st.env[l.obj] = Val{T: l.obj.Type(), S: SRef, X: r, Root: "@local"}
	return Val{T: types.NewPointer(l.obj.Type()), S: SRef, X: r, Root: key, PT: l.obj.Type()}
}

func (fx *Fx) evalBinary(st *State, x *ast.BinaryExpr, spec bool) Val {
	switch x.Op {
	case token.LAND, token.LOR:
		l := fx.boolTerm(st, x.X, spec)
		n := len(st.pc)
		guard := l
		if x.Op == token.LOR {
			guard = not(l)
		}
		st.pc = append(st.pc, guard)
		r := fx.boolTerm(st, x.Y, spec)
		// drop the guard, keep facts learnt under it as implications
		extra := append([]string(nil), st.pc[n+1:]...)
		st.pc = st.pc[:n]
		for _, e := range extra {
			st.assume(implies(guard, e))
		}
		if x.Op == token.LAND {
			return Val{T: types.Typ[types.Bool], S: SBool, X: and(l, r)}
		}
		return Val{T: types.Typ[types.Bool], S: SBool, X: or(l, r)}
	}
	a := fx.eval(st, x.X, spec)
	b := fx.eval(st, x.Y, spec)
	return fx.binop(st, x.Op, a, b, exprText(x), spec)
}

func (fx *Fx) binop(st *State, op token.Token, a, b Val, text string, spec bool) Val {
	boolV := func(t string) Val { return Val{T: types.Typ[types.Bool], S: SBool, X: t} }
	// mixed Int/Real (untyped constants in float context)
	if a.S == SReal && b.S == SInt {
		b = Val{T: a.T, S: SReal, X: app("to_real", b.X)}
	} else if a.S == SInt && b.S == SReal {
		a = Val{T: b.T, S: SReal, X: app("to_real", a.X)}
	}
	rt := a.T
	if rt == nil || isUntyped(rt) {
		rt = b.T
	}
	switch op {
	case token.EQL, token.NEQ:
		var eq string
		switch {
		case a.X == "nil" && (b.S == SStr || strings.HasPrefix(b.S, "Seq_")):
			fx.assumed["a nil slice is modelled as the empty sequence"] = true
			eq = app("=", fx.seqLen(b), "0")
		case b.X == "nil" && (a.S == SStr || strings.HasPrefix(a.S, "Seq_")):
			fx.assumed["a nil slice is modelled as the empty sequence"] = true
			eq = app("=", fx.seqLen(a), "0")
		case a.S == SStr && b.Lit != nil:
			eq = eqLit(a.X, *b.Lit)
		case a.S == SStr && a.Lit != nil:
			eq = eqLit(b.X, *a.Lit)
		case a.S == SRef && b.S != SRef && b.X != "nil":
			eq = app("=", a.X, fx.box(st, b, a.T).X)
		case b.S == SRef && a.S != SRef && a.X != "nil":
			eq = app("=", fx.box(st, a, b.T).X, b.X)
		default:
			if a.S != "" && b.S != "" && a.S != b.S && a.X != "nil" && b.X != "nil" {
				panic(unsupported(fmt.Sprintf("comparison %s of values of different types (%s and %s): the contract no longer matches the code", text, a.S, b.S)))
			}
			eq = app("=", a.X, b.X)
			if a.X == b.X {
				eq = "true"
			}
		}
		if op == token.NEQ {
			return boolV(not(eq))
		}
		return boolV(eq)
	case token.LSS:
		return boolV(app("<", a.X, b.X))
	case token.LEQ:
		return boolV(app("<=", a.X, b.X))
	case token.GTR:
		return boolV(app(">", a.X, b.X))
	case token.GEQ:
		return boolV(app(">=", a.X, b.X))
	}
	if a.S == SStr && op == token.ADD {
		if a.Lit != nil && b.Lit != nil {
			s := *a.Lit + *b.Lit
			return Val{T: rt, S: SStr, X: fx.d.strLit(s), Lit: &s}
		}
		return Val{T: rt, S: SStr, X: app("sconcat", a.X, b.X)}
	}
	if a.S == SReal {
		switch op {
		case token.ADD:
			return Val{T: rt, S: SReal, X: app("+", a.X, b.X)}
		case token.SUB:
			return Val{T: rt, S: SReal, X: app("-", a.X, b.X)}
		case token.MUL:
			return Val{T: rt, S: SReal, X: app("*", a.X, b.X)}
		case token.QUO:
			return Val{T: rt, S: SReal, X: app("/", a.X, b.X)}
		}
	}
	if a.S == SInt {
		var r string
		switch op {
		case token.ADD:
			r = app("+", a.X, b.X)
		case token.SUB:
			r = app("-", a.X, b.X)
		case token.MUL:
			r = app("*", a.X, b.X)
		case token.QUO:
			// Go truncates toward zero; SMT div is Euclidean
			r = ite(app(">=", a.X, "0"), app("div", a.X, b.X), app("-", app("div", app("-", a.X), b.X)))
			if !spec && fx.inSpec == 0 && !isLiteralNonZero(b.X) {
				fx.oblige(st, "arith", "divzero("+text+")", not(app("=", b.X, "0")), "")
			}
		case token.REM:
			r = ite(app(">=", a.X, "0"), app("mod", a.X, b.X), app("-", app("mod", app("-", a.X), b.X)))
			if !spec && fx.inSpec == 0 && !isLiteralNonZero(b.X) {
				fx.oblige(st, "arith", "divzero("+text+")", not(app("=", b.X, "0")), "")
			}
		default:
			panic(unsupported("integer operator " + op.String()))
		}
		if !spec && isUnsigned64(rt) && (op == token.ADD || op == token.SUB || op == token.MUL) {
			r = app("mod", r, "18446744073709551616")
		}
		return Val{T: rt, S: SInt, X: r}
	}
	panic(unsupported(fmt.Sprintf("operator %s on sort %s (%s)", op, a.S, text)))
}

func isLiteralNonZero(x string) bool {
	n, err := strconv.ParseInt(x, 10, 64)
	return err == nil && n != 0
}

func isUntyped(t types.Type) bool {
	b, ok := t.(*types.Basic)
	return ok && b.Info()&types.IsUntyped != 0
}

func (fx *Fx) evalComposite(st *State, x *ast.CompositeLit, spec bool) Val {
	t := fx.typeOf(x)
	if t == nil {
		panic(unsupported("composite literal without type"))
	}
	if n, ok := t.(*types.Named); ok && isStringsBuilder(n) {
		return Val{T: t, S: SStr, X: "str_empty"}
	}
	switch u := t.Underlying().(type) {
	case *types.Struct:
		s := fx.d.sortOf(t)
		info := fx.d.structs[s]
		vals := make([]string, len(info.fields))
		for i := range info.fields {
			vals[i] = fx.d.zeroOfSort(info.fsorts[i], info.ftypes[i])
		}
		for i, el := range x.Elts {
			if kv, ok := el.(*ast.KeyValueExpr); ok {
				name := kv.Key.(*ast.Ident).Name
				found := false
				for j, f := range info.fields {
					if f == name {
						vals[j] = fx.eval(st, kv.Value, spec).X
						found = true
					}
				}
				if !found {
					panic(unsupported("field " + name + " in literal"))
				}
			} else {
				vals[i] = fx.eval(st, el, spec).X
			}
		}
		return Val{T: t, S: s, X: "(" + info.ctor + " " + strings.Join(vals, " ") + ")"}
	case *types.Slice:
		if isByte(u.Elem()) {
			var bs []byte
			for _, el := range x.Elts {
				tv := fx.pkg.info.Types[el]
				if tv.Value == nil {
					panic(unsupported("non-constant byte slice literal"))
				}
				n, _ := constant.Int64Val(tv.Value)
				bs = append(bs, byte(n))
			}
			s := string(bs)
			return Val{T: t, S: SStr, X: fx.d.strLit(s), Lit: &s}
		}
		ss := fx.d.sortOf(t)
		arr := fx.d.constArray(fx.d.sortOf(u.Elem()), fx.d.zeroOf(u.Elem()))
		for i, el := range x.Elts {
			arr = app("store", arr, fmt.Sprint(i), fx.eval(st, el, spec).X)
		}
		return Val{T: t, S: ss, X: app("mk_"+ss, arr, fmt.Sprint(len(x.Elts)), fmt.Sprint(len(x.Elts)), fx.alloc(st, "backing"))}
	case *types.Map:
		mv := fx.newMap(st, t, u)
		for _, el := range x.Elts {
			kv, ok := el.(*ast.KeyValueExpr)
			if !ok {
				panic(unsupported("map literal element without a key"))
			}
			k, v := fx.eval(st, kv.Key, spec), fx.eval(st, kv.Value, spec)
			// the map is fresh and not yet visible to anyone: a plain update of its cell, no lock or nil obligations
			c, cell := fx.mapCell(st, mv, u)
			dom, val, size := app("dom_"+cell, c), app("val_"+cell, c), app("size_"+cell, c)
			nsize := ite(app("select", dom, k.X), size, app("+", size, "1"))
			fx.mapStoreCell(st, mv, cell, app("mk_"+cell, app("store", dom, k.X, "true"), app("store", val, k.X, v.X), nsize))
		}
		return mv
	}
	panic(unsupported(fmt.Sprintf("composite literal of %s", t)))
}
