package main

// Parsing of the //@ contract blocks kept in the build-tagged files of /repo.

import (
	"fmt"
	"go/ast"
	"go/parser"
	"os"
	"regexp"
	"strconv"
	"strings"
)

type Clause struct {
	Label string
	Text  string
	Expr  ast.Expr
}

type LoopSpec struct {
	Invariants []Clause
	Steps      []Clause // checked at the end of every iteration (and at exits from inside the body); may use prev(e)
	Entries    []Clause // checked once, when the loop is first reached (what the state is before the first iteration)
}

type FuncSpec struct {
	Key         string // "Recv.Name", "Name", or "Recv.Name$1" for function literals
	Requires    []Clause
	Ensures     []Clause
	Modifies    []ast.Expr
	ModText     []string
	Loops       map[int]*LoopSpec
	InlLoops    map[string]*LoopSpec // invariants for loops of functions inlined into this one, keyed "callee.N"
	Assumes     []Clause             // assumptions at entry (trusted, listed in evidence)
	Inline      bool                 // callers inline the body instead of using the contract
	Trusted     bool                 // body is not verified (external / assumed contract)
	Pure        bool                 // callee modifies nothing and the contract is a function of the args
	AssumePre   map[string]string    // callee key suffix -> reason: preconditions of these callees are assumed here, not proved
	TraceChans  bool                 // channel sends/receives of this function are recorded in the ghost trace (chansend/chanrecv)
	Traced      bool                 // every call is also recorded in the ghost call trace (method name = function name)
	MayPanic    bool                 // abstract callees may panic inside this function (exceptional paths are explored)
	AllowUnsafe string               // reason why the unsafe string/slice views in this function are transient (not retained)
	Params      []string             // for assumed contracts of functions without source: parameter names
	Results     []string             // result names
	Iter        *IterSpec            // canonical loop of a returned iterator
	Sites       map[string]*LoopSpec // invariants for iterator call sites, keyed by callee name + ordinal
	Ghost       []GhostDecl
	File        string
	Line        int
}

type IterSpec struct {
	Count ast.Expr   // number of yields
	Args  []ast.Expr // expression for each yield argument, in terms of iterk
}

type GhostDecl struct {
	Name string
	Sort string
}

type PureFunc struct {
	Opaque bool // compiled to an SMT function symbol with a definitional axiom instead of being expanded
	Name   string
	Params []string
	Body   ast.Expr
	Text   string
}

type Guard struct {
	Type   string
	Mutex  string
	Fields map[string]bool
}

type ChanInv struct {
	Var  string   // name bound to the message
	Recv []Clause // assumed when a message is received from the channel held in this field
	Send []Clause // proved when a message is sent on it
}

type Contracts struct {
	ChanInvs map[string]*ChanInv // "Type.field" -> message invariant of the channel stored there
	Guards   map[string]*Guard   // struct type name -> fields guarded by a mutex field
	Funcs    map[string]*FuncSpec
	Pures    map[string]*PureFunc
	Props    map[string][]string // property id -> obligation name patterns (glob with *)
	Files    []string
}

var labelRe = regexp.MustCompile(`^([A-Za-z_][A-Za-z0-9_]*):\s+(.*)$`)

// preprocessImplies rewrites a ==> b (lowest precedence, right associative) into imp(a, b).
func preprocessImplies(s string) string {
	// work per parenthesis group
	var rec func(s string) string
	rec = func(s string) string {
		// first rewrite inside parenthesised groups
		var out strings.Builder
		depth := 0
		start := -1
		inStr := byte(0)
		for i := 0; i < len(s); i++ {
			c := s[i]
			if inStr != 0 {
				if c == '\\' {
					if depth == 0 {
						out.WriteByte(c)
						if i+1 < len(s) {
							out.WriteByte(s[i+1])
						}
					}
					i++
					continue
				}
				if c == inStr {
					inStr = 0
				}
				if depth == 0 {
					out.WriteByte(c)
				}
				continue
			}
			switch c {
			case '"', '\'', '`':
				inStr = c
				if depth == 0 {
					out.WriteByte(c)
				}
			case '(', '[':
				if depth == 0 {
					start = i
				}
				depth++
			case ')', ']':
				depth--
				if depth == 0 {
					inner := s[start+1 : i]
					out.WriteByte(s[start])
					// split on top-level commas so that each argument is handled separately
					parts := splitTop(inner, ',')
					for j, p := range parts {
						if j > 0 {
							out.WriteByte(',')
						}
						out.WriteString(rec(p))
					}
					out.WriteByte(c)
				}
			default:
				if depth == 0 {
					out.WriteByte(c)
				}
			}
		}
		flat := out.String()
		// now split flat on top-level ==>
		idx := topLevelIndex(flat, "==>")
		if idx < 0 {
			return flat
		}
		return "imp(" + strings.TrimSpace(flat[:idx]) + ", " + rec(strings.TrimSpace(flat[idx+3:])) + ")"
	}
	return rec(s)
}

func splitTop(s string, sep byte) []string {
	var parts []string
	depth := 0
	last := 0
	inStr := byte(0)
	for i := 0; i < len(s); i++ {
		c := s[i]
		if inStr != 0 {
			if c == '\\' {
				i++
			} else if c == inStr {
				inStr = 0
			}
			continue
		}
		switch c {
		case '"', '\'', '`':
			inStr = c
		case '(', '[', '{':
			depth++
		case ')', ']', '}':
			depth--
		default:
			if c == sep && depth == 0 {
				parts = append(parts, s[last:i])
				last = i + 1
			}
		}
	}
	parts = append(parts, s[last:])
	return parts
}

func topLevelIndex(s, tok string) int {
	depth := 0
	inStr := byte(0)
	for i := 0; i < len(s); i++ {
		c := s[i]
		if inStr != 0 {
			if c == '\\' {
				i++
			} else if c == inStr {
				inStr = 0
			}
			continue
		}
		switch c {
		case '"', '\'', '`':
			inStr = c
		case '(', '[', '{':
			depth++
		case ')', ']', '}':
			depth--
		default:
			if depth == 0 && strings.HasPrefix(s[i:], tok) {
				return i
			}
		}
	}
	return -1
}

func parseSpecExpr(text string) (ast.Expr, error) {
	t := preprocessImplies(text)
	e, err := parser.ParseExpr(t)
	if err != nil {
		return nil, fmt.Errorf("contract expression %q: %v", text, err)
	}
	return e, nil
}

var clauseKeywords = map[string]bool{"func": true, "pure": true, "requires": true, "ensures": true, "modifies": true,
	"invariant": true, "assume": true, "prop": true, "inline": true, "trusted": true, "iter": true, "site": true,
	"ghost": true, "params": true, "results": true, "purefn": true, "opaque": true, "guarded": true, "maypanic": true, "traced": true, "assumepre": true, "step": true, "chanrecv": true, "chansend": true, "tracechans": true, "allowunsafe": true, "entry": true}

func (c *Contracts) parseFile(path string) error {
	data, err := os.ReadFile(path)
	if err != nil {
		return err
	}
	c.Files = append(c.Files, path)
	// gather logical clauses (with continuation lines)
	type lc struct {
		kw, rest string
		line     int
	}
	var clauses []lc
	for i, raw := range strings.Split(string(data), "\n") {
		line := strings.TrimSpace(raw)
		if !strings.HasPrefix(line, "//@") {
			continue
		}
		body := strings.TrimSpace(strings.TrimPrefix(line, "//@"))
		if body == "" || strings.HasPrefix(body, "#") {
			continue
		}
		kw := body
		rest := ""
		if j := strings.IndexAny(body, " \t"); j >= 0 {
			kw, rest = body[:j], strings.TrimSpace(body[j+1:])
		}
		if clauseKeywords[kw] {
			clauses = append(clauses, lc{kw, rest, i + 1})
		} else if len(clauses) > 0 {
			clauses[len(clauses)-1].rest += " " + body
		} else {
			return fmt.Errorf("%s:%d: continuation without clause", path, i+1)
		}
	}
	var cur *FuncSpec
	mkClause := func(text string, n int, prefix string) (Clause, error) {
		label := ""
		if m := labelRe.FindStringSubmatch(text); m != nil && !strings.HasPrefix(m[2], "=") {
			label, text = m[1], m[2]
		}
		if label == "" {
			label = fmt.Sprintf("%s%d", prefix, n)
		}
		e, err := parseSpecExpr(text)
		if err != nil {
			return Clause{}, err
		}
		return Clause{Label: label, Text: text, Expr: e}, nil
	}
	for _, cl := range clauses {
		fail := func(err error) error { return fmt.Errorf("%s:%d: %v", path, cl.line, err) }
		switch cl.kw {
		case "func":
			key := strings.Fields(cl.rest)[0]
			cur = &FuncSpec{Key: key, Loops: map[int]*LoopSpec{}, InlLoops: map[string]*LoopSpec{}, Sites: map[string]*LoopSpec{}, File: path, Line: cl.line}
			if _, dup := c.Funcs[key]; dup {
				return fail(fmt.Errorf("duplicate contract for %s", key))
			}
			c.Funcs[key] = cur
		case "pure", "opaque":
			// pure name(a, b) = expr
			eq := strings.Index(cl.rest, "=")
			if eq < 0 {
				return fail(fmt.Errorf("pure without ="))
			}
			head := strings.TrimSpace(cl.rest[:eq])
			op := strings.Index(head, "(")
			if op < 0 || !strings.HasSuffix(head, ")") {
				return fail(fmt.Errorf("pure head %q", head))
			}
			name := strings.TrimSpace(head[:op])
			var params []string
			for _, p := range strings.Split(head[op+1:len(head)-1], ",") {
				if p = strings.TrimSpace(p); p != "" {
					params = append(params, p)
				}
			}
			text := strings.TrimSpace(cl.rest[eq+1:])
			e, err := parseSpecExpr(text)
			if err != nil {
				return fail(err)
			}
			c.Pures[name] = &PureFunc{Name: name, Params: params, Body: e, Text: text, Opaque: cl.kw == "opaque"}
		case "chanrecv", "chansend":
			// chanrecv <Type.field> <var> [label:] expr   |   chansend <Type.field> <var> [label:] expr
			f := strings.SplitN(cl.rest, " ", 3)
			if len(f) < 3 {
				return fail(fmt.Errorf("%s <Type.field> <var> expr", cl.kw))
			}
			ci := c.ChanInvs[f[0]]
			if ci == nil {
				ci = &ChanInv{Var: f[1]}
				c.ChanInvs[f[0]] = ci
			}
			k, err := mkClause(strings.TrimSpace(f[2]), len(ci.Recv)+len(ci.Send), "m")
			if err != nil {
				return fail(err)
			}
			if cl.kw == "chanrecv" {
				ci.Recv = append(ci.Recv, k)
			} else {
				ci.Send = append(ci.Send, k)
			}
		case "guarded":
			// guarded <Type> <mutex field> <field> <field> ...
			f := strings.Fields(cl.rest)
			if len(f) < 3 {
				return fail(fmt.Errorf("guarded <Type> <mutex> <fields...>"))
			}
			g := &Guard{Type: f[0], Mutex: f[1], Fields: map[string]bool{}}
			for _, x := range f[2:] {
				g.Fields[x] = true
			}
			c.Guards[f[0]] = g
		case "prop":
			// prop C08: pat, pat
			colon := strings.Index(cl.rest, ":")
			if colon < 0 {
				return fail(fmt.Errorf("prop without :"))
			}
			id := strings.TrimSpace(cl.rest[:colon])
			for _, p := range strings.Split(cl.rest[colon+1:], ",") {
				if p = strings.TrimSpace(p); p != "" {
					c.Props[id] = append(c.Props[id], p)
				}
			}
		default:
			if cur == nil {
				return fail(fmt.Errorf("%s outside func", cl.kw))
			}
			switch cl.kw {
			case "requires":
				k, err := mkClause(cl.rest, len(cur.Requires), "r")
				if err != nil {
					return fail(err)
				}
				cur.Requires = append(cur.Requires, k)
			case "assume":
				k, err := mkClause(cl.rest, len(cur.Assumes), "a")
				if err != nil {
					return fail(err)
				}
				cur.Assumes = append(cur.Assumes, k)
			case "ensures":
				k, err := mkClause(cl.rest, len(cur.Ensures), "e")
				if err != nil {
					return fail(err)
				}
				cur.Ensures = append(cur.Ensures, k)
			case "modifies":
				for _, p := range splitTop(cl.rest, ',') {
					p = strings.TrimSpace(p)
					if p == "" {
						continue
					}
					e, err := parseSpecExpr(p)
					if err != nil {
						return fail(err)
					}
					cur.Modifies = append(cur.Modifies, e)
					cur.ModText = append(cur.ModText, p)
				}
			case "invariant":
				// invariant <loop ordinal> [label:] expr
				f := strings.SplitN(cl.rest, " ", 2)
				if len(f) < 2 {
					return fail(fmt.Errorf("invariant needs a loop ordinal"))
				}
				n, err := strconv.Atoi(f[0])
				var ls *LoopSpec
				if err != nil {
					// "callee.N": a loop of a function that is inlined into this one
					if !strings.Contains(f[0], ".") {
						return fail(fmt.Errorf("invariant needs a loop ordinal"))
					}
					ls = cur.InlLoops[f[0]]
					if ls == nil {
						ls = &LoopSpec{}
						cur.InlLoops[f[0]] = ls
					}
					n = 0
				} else {
					ls = cur.Loops[n]
					if ls == nil {
						ls = &LoopSpec{}
						cur.Loops[n] = ls
					}
				}
				k, err := mkClause(strings.TrimSpace(f[1]), len(ls.Invariants), fmt.Sprintf("l%d_", n))
				if err != nil {
					return fail(err)
				}
				ls.Invariants = append(ls.Invariants, k)
			case "entry":
				// entry <loop ordinal> [label:] expr     obligation at the first arrival at the loop (not an invariant)
				f := strings.SplitN(cl.rest, " ", 2)
				n, err := strconv.Atoi(f[0])
				if err != nil || len(f) < 2 {
					return fail(fmt.Errorf("entry needs a loop ordinal"))
				}
				ls := cur.Loops[n]
				if ls == nil {
					ls = &LoopSpec{}
					cur.Loops[n] = ls
				}
				k, err := mkClause(strings.TrimSpace(f[1]), len(ls.Entries), fmt.Sprintf("e%d_", n))
				if err != nil {
					return fail(err)
				}
				ls.Entries = append(ls.Entries, k)
			case "step":
				// step <loop ordinal> [label:] expr     per-iteration contract; prev(e) = value of e at the head of the iteration
				f := strings.SplitN(cl.rest, " ", 2)
				n, err := strconv.Atoi(f[0])
				if err != nil || len(f) < 2 {
					return fail(fmt.Errorf("step needs a loop ordinal"))
				}
				ls := cur.Loops[n]
				if ls == nil {
					ls = &LoopSpec{}
					cur.Loops[n] = ls
				}
				k, err := mkClause(strings.TrimSpace(f[1]), len(ls.Steps), fmt.Sprintf("s%d_", n))
				if err != nil {
					return fail(err)
				}
				ls.Steps = append(ls.Steps, k)
			case "site":
				// site <name> [label:] expr     invariant for an iterator call site
				f := strings.SplitN(cl.rest, " ", 2)
				if len(f) < 2 {
					return fail(fmt.Errorf("site needs a name"))
				}
				ls := cur.Sites[f[0]]
				if ls == nil {
					ls = &LoopSpec{}
					cur.Sites[f[0]] = ls
				}
				k, err := mkClause(strings.TrimSpace(f[1]), len(ls.Invariants), f[0]+"_")
				if err != nil {
					return fail(err)
				}
				ls.Invariants = append(ls.Invariants, k)
			case "inline":
				cur.Inline = true
			case "trusted":
				cur.Trusted = true
			case "purefn":
				cur.Pure = true
			case "maypanic":
				cur.MayPanic = true
			case "allowunsafe":
				cur.AllowUnsafe = strings.TrimSpace(cl.rest)
				if cur.AllowUnsafe == "" {
					return fail(fmt.Errorf("allowunsafe needs a reason"))
				}
			case "traced":
				cur.Traced = true
			case "tracechans":
				cur.TraceChans = true
			case "assumepre":
				if cur.AssumePre == nil {
					cur.AssumePre = map[string]string{}
				}
				f := strings.SplitN(cl.rest, " ", 2)
				why := ""
				if len(f) > 1 {
					why = f[1]
				}
				cur.AssumePre[f[0]] = why
			case "params":
				cur.Params = strings.Fields(strings.ReplaceAll(cl.rest, ",", " "))
			case "results":
				cur.Results = strings.Fields(strings.ReplaceAll(cl.rest, ",", " "))
			case "ghost":
				f := strings.Fields(cl.rest)
				if len(f) != 2 {
					return fail(fmt.Errorf("ghost <name> <sort>"))
				}
				cur.Ghost = append(cur.Ghost, GhostDecl{f[0], f[1]})
			case "iter":
				// iter count: expr   |  iter arg: expr
				colon := strings.Index(cl.rest, ":")
				if colon < 0 {
					return fail(fmt.Errorf("iter needs count: or arg:"))
				}
				what := strings.TrimSpace(cl.rest[:colon])
				e, err := parseSpecExpr(strings.TrimSpace(cl.rest[colon+1:]))
				if err != nil {
					return fail(err)
				}
				if cur.Iter == nil {
					cur.Iter = &IterSpec{}
				}
				if what == "count" {
					cur.Iter.Count = e
				} else {
					cur.Iter.Args = append(cur.Iter.Args, e)
				}
			}
		}
	}
	return nil
}

func newContracts() *Contracts {
	return &Contracts{Funcs: map[string]*FuncSpec{}, Pures: map[string]*PureFunc{}, Props: map[string][]string{}, Guards: map[string]*Guard{}, ChanInvs: map[string]*ChanInv{}}
}

func globMatch(pat, s string) bool {
	// '*' matches any run of characters
	parts := strings.Split(pat, "*")
	if len(parts) == 1 {
		return pat == s
	}
	if !strings.HasPrefix(s, parts[0]) {
		return false
	}
	s = s[len(parts[0]):]
	for i := 1; i < len(parts)-1; i++ {
		j := strings.Index(s, parts[i])
		if j < 0 {
			return false
		}
		s = s[j+len(parts[i]):]
	}
	return strings.HasSuffix(s, parts[len(parts)-1])
}
