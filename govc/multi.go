package main

// Calls that may split paths: closures and functions marked inline are executed statement by statement.

import (
	"go/ast"
	"go/types"
)

type callResult struct {
	st   *State
	vals []Val
	kind int
}

// closureOf resolves the callee expression of a call to a statically known closure, if it is one.
func (fx *Fx) closureOf(st *State, call *ast.CallExpr) *Closure {
	if id, ok := ast.Unparen(call.Fun).(*ast.Ident); ok {
		if o := fx.pkg.info.ObjectOf(id); o != nil {
			if v, ok := st.env[o]; ok && v.Fn != nil && v.Fn.Lit != nil {
				return v.Fn
			}
		}
	}
	if lit, ok := ast.Unparen(call.Fun).(*ast.FuncLit); ok {
		return &Closure{Lit: lit, Env: st, Key: fx.litKey(lit)}
	}
	return nil
}

func (fx *Fx) inlineDeclOf(call *ast.CallExpr) (*FuncDeclInfo, ast.Expr) {
	key, fd, recvExpr := fx.calleeOf(call)
	if key == "" || fd == nil || fd.decl.Body == nil {
		return nil, nil
	}
	spec := fx.v.contracts.Funcs[key]
	if spec != nil && spec.Inline {
		return fd, recvExpr
	}
	// a callee of the library without a contract (e.g. a freshly extracted helper) is executed in place
	if spec == nil && singleReturn(fd.decl) == nil {
		fx.assumed["callee without a contract executed in place: "+key] = true
		return fd, recvExpr
	}
	return nil, nil
}

func (fx *Fx) isMultiCall(call *ast.CallExpr) bool {
	if _, ok := ast.Unparen(call.Fun).(*ast.CallExpr); ok {
		return true // iterator application f(...)(yield)
	}
	if fd, _ := fx.inlineDeclOf(call); fd != nil {
		return true
	}
	return false
}

func (fx *Fx) isPureCall(call *ast.CallExpr) bool {
	key, fd, _ := fx.calleeOf(call)
	if key == "" {
		return false
	}
	if spec := fx.v.contracts.Funcs[key]; spec != nil && !spec.Inline {
		return spec.Pure
	}
	return fd != nil && singleReturn(fd.decl) != nil
}

func (fx *Fx) evalCallMulti(st *State, call *ast.CallExpr) []callResult {
	if inner, ok := ast.Unparen(call.Fun).(*ast.CallExpr); ok {
		return fx.iteratorCall(st, inner, call)
	}
	if c := fx.closureOf(st, call); c != nil {
		var args []Val
		for _, a := range call.Args {
			args = append(args, fx.eval(st, a, false))
		}
		return fx.inlineBody(st, fx.pkg, c.Lit.Type, c.Lit.Body, nil, nil, args, fx.pkg.info)
	}
	if fd, recvExpr := fx.inlineDeclOf(call); fd != nil {
		var recv *Val
		if recvExpr != nil {
			rp := fx.evalPlace(st, recvExpr, false)
			rv := fx.receiverValue(st, rp, fd.obj.Type().(*types.Signature), exprText(recvExpr), false)
			recv = &rv
		}
		var args []Val
		for _, a := range call.Args {
			args = append(args, fx.eval(st, a, false))
		}
		sig := fd.obj.Type().(*types.Signature)
		if sig.Variadic() && !call.Ellipsis.IsValid() {
			args = fx.packVariadic(st, sig, args)
		}
		return fx.inlineDecl(st, fd, recv, args)
	}
	// close(c) of an already closed channel panics: where the function says maypanic, that exit is explored
	if fx.rootSpec != nil && fx.rootSpec.MayPanic {
		if id, ok := ast.Unparen(call.Fun).(*ast.Ident); ok && id.Name == "close" && len(call.Args) == 1 {
			if _, isB := fx.pkg.info.Uses[id].(*types.Builtin); isB {
				c := fx.eval(st, call.Args[0], false)
				cell := fx.chanCell(st, c.X)
				pst := st.clone()
				pst.assume(app("ch_closed", cell))
				pv := fx.d.freshConst("panicval", SRef)
				pst.assume(not(app("=", pv, "nil")))
				pst.panicVal = pv
				st.assume(not(app("ch_closed", cell)))
				fx.evalCall(st, call, false)
				return []callResult{{st: st, kind: kNormal}, {st: pst, kind: kPanic}}
			}
		}
	}
	// an abstract callee may panic where the function under verification says so (maypanic): explore that exit too
	if fx.rootSpec != nil && fx.rootSpec.MayPanic && fx.classifyCall(st, call) == callAbstract {
		pst := st.clone()
		var pargs []Val
		for _, a := range call.Args {
			pargs = append(pargs, fx.eval(pst, a, false))
		}
		// the call was made (it is in the trace) but never returned
		precv, pname := "nil", fx.funcValueName(call.Fun)
		if se, ok := ast.Unparen(call.Fun).(*ast.SelectorExpr); ok {
			if sel, ok := fx.pkg.info.Selections[se]; ok && sel.Kind() == types.MethodVal {
				precv = fx.eval(pst, se.X, false).X
			}
		}
		fx.abstractCallQuiet(pst, precv, pname, pargs)
		pv := fx.d.freshConst("panicval", SRef)
		pst.assume(not(app("=", pv, "nil")))
		pst.panicVal = pv
		vals := fx.evalCall(st, call, false)
		return []callResult{{st: st, vals: vals, kind: kNormal}, {st: pst, kind: kPanic}}
	}
	vals := fx.evalCall(st, call, false)
	return []callResult{{st: st, vals: vals, kind: kNormal}}
}

func (fx *Fx) inlineDecl(st *State, fd *FuncDeclInfo, recv *Val, args []Val) []callResult {
	return fx.inlineBody(st, fd.pkg, fd.decl.Type, fd.decl.Body, fd, recv, args, fd.pkg.info)
}

// inlineBody executes a function body on the caller's state with parameters bound.
func (fx *Fx) inlineBody(st *State, pkg *Pkg, ft *ast.FuncType, body *ast.BlockStmt, fd *FuncDeclInfo, recv *Val, args []Val, info *types.Info) []callResult {
	if fx.depth > 12 {
		panic(unsupported("inlining too deep"))
	}
	fx.depth++
	savedPkg, savedResults := fx.pkg, fx.results
	savedLoopOrd, savedSpec, savedInl := fx.loopOrd, fx.spec, fx.inlineName
	savedNames := map[string]types.Object{}
	for k, v := range st.names {
		savedNames[k] = v
	}
	fx.pkg = pkg
	if fd != nil {
		if fd.litParams {
			i := 0
			for _, f := range ft.Params.List {
				for _, n := range f.Names {
					if o := info.Defs[n]; o != nil && i < len(args) {
						fx.declare(st, o, args[i])
					}
					i++
				}
				if len(f.Names) == 0 {
					i++
				}
			}
		} else {
			fx.bindParams(st, fd, recv, args)
		}
		fx.loopOrd = fx.v.loopOrdinals(fd.decl)
		fx.spec = fx.v.contracts.Funcs[fx.v.funcKey(fd.obj)]
		fx.inlineName = fd.decl.Name.Name
	} else {
		i := 0
		for _, f := range ft.Params.List {
			for _, n := range f.Names {
				if o := info.Defs[n]; o != nil && i < len(args) {
					fx.declare(st, o, args[i])
				}
				i++
			}
			if len(f.Names) == 0 {
				i++
			}
		}
	}
	// result objects
	fx.results = nil
	if ft.Results != nil {
		for _, f := range ft.Results.List {
			for _, n := range f.Names {
				if o := info.Defs[n]; o != nil {
					fx.results = append(fx.results, o)
					fx.declare(st, o, Val{T: o.Type(), S: fx.d.sortOf(o.Type()), X: fx.d.zeroOf(o.Type())})
				}
			}
		}
	}
	nres := 0
	if ft.Results != nil {
		nres = ft.Results.NumFields()
	}
	named := len(fx.results) > 0
	if !named {
		// anonymous results: make placeholder objects so that setResults can coerce by type
		fx.results = nil
		if ft.Results != nil {
			for _, f := range ft.Results.List {
				t := info.Types[f.Type].Type
				fx.results = append(fx.results, types.NewVar(0, pkg.types, "", t))
			}
		}
	}
	deferBase := len(st.defers)
	outs0 := fx.execBlock(st, body.List)
	var outs []Outcome
	for _, o := range outs0 {
		if o.kind != kReturn && o.kind != kNormal && o.kind != kPanic {
			outs = append(outs, o)
			continue
		}
		for _, ds := range fx.runDefers(o.st, deferBase) {
			k := o.kind
			if k == kPanic && ds.panicVal == "" {
				k = kReturn
				ds.retVals = nil
			} else if k != kPanic && named {
				ds.retVals = nil
			}
			outs = append(outs, Outcome{st: ds, kind: k})
		}
	}
	var res []callResult
	for _, o := range outs {
		switch o.kind {
		case kReturn:
			vals := o.st.retVals
			if named && len(vals) == 0 {
				for _, ro := range fx.results {
					vals = append(vals, o.st.env[ro])
				}
			}
			o.st.names = copyNames(savedNames)
			res = append(res, callResult{st: o.st, vals: vals, kind: kNormal})
		case kNormal:
			if nres > 0 {
				panic(unsupported("inlined function falls off its end"))
			}
			o.st.names = copyNames(savedNames)
			res = append(res, callResult{st: o.st, kind: kNormal})
		case kPanic:
			res = append(res, callResult{st: o.st, kind: kPanic})
		default:
			panic(unsupported("break/continue escapes an inlined function"))
		}
	}
	fx.pkg, fx.results = savedPkg, savedResults
	fx.loopOrd, fx.spec, fx.inlineName = savedLoopOrd, savedSpec, savedInl
	fx.depth--
	return res
}

func copyNames(m map[string]types.Object) map[string]types.Object {
	n := make(map[string]types.Object, len(m))
	for k, v := range m {
		n[k] = v
	}
	return n
}
