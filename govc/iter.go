package main

// Iterators: a function whose contract has `iter` clauses returns a closure that calls its argument
// yield(arg_0(k), arg_1(k), ...) for k = 0..count-1 in order and stops after the first false.
// (a) The returned closure is verified against that canonical loop through the ghost call trace.
// (b) A call site f(...)(func literal) is executed as the canonical loop with the literal as body,
//     cut at the invariants given by `site <name>` clauses of the caller's contract.

import (
	"fmt"
	"go/ast"
	"go/types"
	"regexp"
	"strings"
)

var iterkRe = regexp.MustCompile(`\biterk\b`)

// iterEnsures builds the postconditions of the returned closure from the iter clauses.
func (v *Verifier) iterEnsures(parent *FuncSpec, yieldName string) ([]Clause, error) {
	var out []Clause
	add := func(label, text string) error {
		e, err := parseSpecExpr(text)
		if err != nil {
			return err
		}
		out = append(out, Clause{Label: label, Text: text, Expr: e})
		return nil
	}
	count := "old(" + exprText(parent.Iter.Count) + ")"
	if err := add("iter_count", "ncalls() - old(ncalls()) <= "+count); err != nil {
		return nil, err
	}
	if err := add("iter_only_yield", fmt.Sprintf("forall(c, old(ncalls()), ncalls(), crecv(c) == %s)", yieldName)); err != nil {
		return nil, err
	}
	for j, a := range parent.Iter.Args {
		text := iterkRe.ReplaceAllString(exprText(a), "(c - old(ncalls()))")
		if err := add(fmt.Sprintf("iter_arg%d", j), fmt.Sprintf("forall(c, old(ncalls()), ncalls(), carg(c, %q, %d) == %s)", yieldName, j, text)); err != nil {
			return nil, err
		}
	}
	if err := add("iter_continues_while_true", fmt.Sprintf("forall(c, old(ncalls()), ncalls()-1, cret(c, %q, 0))", yieldName)); err != nil {
		return nil, err
	}
	if err := add("iter_complete_unless_stopped", fmt.Sprintf("ncalls() - old(ncalls()) < %s ==> ncalls() > old(ncalls()) && !cret(ncalls()-1, %q, 0)", count, yieldName)); err != nil {
		return nil, err
	}
	return out, nil
}

func (fx *Fx) iteratorCall(st *State, inner, outer *ast.CallExpr) []callResult {
	key, fd, recvExpr := fx.calleeOf(inner)
	if key == "" || fd == nil {
		panic(unsupported("iterator application of an unknown function: " + exprText(inner)))
	}
	spec := fx.v.contracts.Funcs[key]
	if spec == nil || spec.Iter == nil {
		return fx.inlineReturnedClosure(st, key, fd, recvExpr, inner, outer)
	}
	if len(outer.Args) != 1 {
		panic(unsupported("iterator applied to several arguments"))
	}
	var lit *ast.FuncLit
	switch a := ast.Unparen(outer.Args[0]).(type) {
	case *ast.FuncLit:
		lit = a
	case *ast.Ident:
		if o := fx.pkg.info.ObjectOf(a); o != nil {
			if v, ok := st.env[o]; ok && v.Fn != nil {
				lit = v.Fn.Lit
			}
		}
	}
	if lit == nil {
		panic(unsupported("iterator applied to a function value that is not a literal"))
	}
	sig := fd.obj.Type().(*types.Signature)
	var recv *Val
	if recvExpr != nil {
		rp := fx.evalPlace(st, recvExpr, false)
		rv := fx.receiverValue(st, rp, sig, exprText(recvExpr), false)
		recv = &rv
	}
	var args []Val
	for _, a := range inner.Args {
		args = append(args, fx.eval(st, a, false))
	}
	ord := fx.siteOrdinal(inner, key)
	bind := fx.specBindings(fd, spec, recv, args)
	for _, r := range spec.Requires {
		g := fx.specEval(st, fd.pkg, bind, nil, r.Expr)
		fx.oblige(st, "pre", fmt.Sprintf("%s@%d:%s", key, ord, r.Label), g, r.Text)
		st.assume(g)
	}
	siteName := fmt.Sprintf("%s%d", fd.decl.Name.Name, ord-1)
	var ls *LoopSpec
	if fx.spec != nil {
		ls = fx.spec.Sites[siteName]
	}
	kname := "iterk"
	savedK := st.iterK
	withK := func(s *State, k string, f func()) {
		old := s.iterK
		s.iterK = k
		f()
		s.iterK = old
	}
	countAt := func(s *State) string {
		return fx.specEvalVal(s, fd.pkg, bind, nil, spec.Iter.Count).X
	}
	check := func(s *State, k string, kind string) {
		if ls == nil {
			return
		}
		withK(s, k, func() {
			for _, inv := range ls.Invariants {
				g := fx.specEval(s, fx.pkg, nil, nil, inv.Expr)
				fx.oblige(s, kind, fmt.Sprintf("site %s:%s", siteName, inv.Label), g, inv.Text)
			}
		})
	}
	// entry
	check(st, "0", "inv-init")
	ws := fx.collectWrites([]ast.Node{lit.Body}, st)
	fx.havoc(st, ws)
	k := fx.d.freshConst(kname, SInt)
	n := countAt(st)
	st.assume(and(app("<=", "0", k), app("<=", k, n)))
	if ls != nil {
		withK(st, k, func() {
			for _, inv := range ls.Invariants {
				st.assume(fx.specEval(st, fx.pkg, nil, nil, inv.Expr))
			}
		})
	}
	var results []callResult
	// exit A: all elements visited
	done := st.clone()
	done.assume(app("=", k, n))
	done.iterK = savedK
	done.ghost["iterk_"+siteName] = Val{T: types.Typ[types.Int], S: SInt, X: k}
	done.ghost["iterstopped_"+siteName] = Val{T: types.Typ[types.Bool], S: SBool, X: "false"}
	results = append(results, callResult{st: done, kind: kNormal})
	// one iteration
	st.assume(app("<", k, n))
	bindK := map[string]Val{}
	for name, v := range bind {
		bindK[name] = v
	}
	bindK["iterk"] = Val{T: types.Typ[types.Int], S: SInt, X: k}
	var yargs []Val
	for _, a := range spec.Iter.Args {
		yargs = append(yargs, fx.specEvalVal(st, fd.pkg, bindK, nil, a))
	}
	st.iterK = k
	for _, r := range fx.inlineBody(st, fx.pkg, lit.Type, lit.Body, nil, nil, yargs, fx.pkg.info) {
		if r.kind != kNormal {
			r.st.iterK = savedK
			results = append(results, r)
			continue
		}
		if len(r.vals) != 1 || r.vals[0].S != SBool {
			panic(unsupported("yield literal must return one bool"))
		}
		cont := r.st.clone()
		cont.assume(r.vals[0].X)
		check(cont, app("+", k, "1"), "inv-step")
		stop := r.st
		stop.assume(not(r.vals[0].X))
		stop.iterK = savedK
		stop.ghost["iterk_"+siteName] = Val{T: types.Typ[types.Int], S: SInt, X: k}
		stop.ghost["iterstopped_"+siteName] = Val{T: types.Typ[types.Bool], S: SBool, X: "true"}
		results = append(results, callResult{st: stop, kind: kNormal})
	}
	_ = strings.TrimSpace
	return results
}

// inlineReturnedClosure handles f(args...)(yield) where f's body is `return func(yield ...) {...}` and f has no iter
// contract: the returned closure's body is executed in place, with f's parameters bound to the arguments and yield
// bound to the argument closure. Loops of f are cut at f's own invariants plus the caller's `invariant f.N` clauses.
func (fx *Fx) inlineReturnedClosure(st *State, key string, fd *FuncDeclInfo, recvExpr ast.Expr, inner, outer *ast.CallExpr) []callResult {
	rets := singleReturn(fd.decl)
	if len(rets) != 1 {
		panic(unsupported("iterator " + key + " has no iter contract and is not a single `return func...`"))
	}
	lit, ok := ast.Unparen(rets[0]).(*ast.FuncLit)
	if !ok {
		panic(unsupported("iterator " + key + " has no iter contract and does not return a function literal"))
	}
	var args []Val
	for _, a := range inner.Args {
		args = append(args, fx.eval(st, a, false))
	}
	var yargs []Val
	for _, a := range outer.Args {
		yargs = append(yargs, fx.eval(st, a, false))
	}
	// bind f's parameters
	savedPkg := fx.pkg
	fx.pkg = fd.pkg
	fx.bindParams(st, fd, nil, args)
	fx.pkg = savedPkg
	// run the literal's body as if it were f's body (so that loop ordinals and contracts are f's)
	return fx.inlineBody(st, fd.pkg, lit.Type, lit.Body, &FuncDeclInfo{key: fd.key, decl: fd.decl, obj: fd.obj, pkg: fd.pkg, litParams: true}, nil, yargs, fd.pkg.info)
}
