package main

// Statement execution: forward symbolic execution with path splitting; loops are cut at their invariants.

import (
	"fmt"
	"go/ast"
	"go/token"
	"go/types"
)

const (
	kNormal = iota
	kBreak
	kContinue
	kReturn
	kPanic
)

type Outcome struct {
	st    *State
	kind  int
	label string
}

const maxPaths = 400

func (fx *Fx) execBlock(st *State, stmts []ast.Stmt) []Outcome {
	cur := []Outcome{{st: st, kind: kNormal}}
	for _, s := range stmts {
		var next []Outcome
		for _, o := range cur {
			if o.kind != kNormal {
				next = append(next, o)
				continue
			}
			next = append(next, fx.exec(o.st, s)...)
		}
		cur = next
		if len(cur) > maxPaths {
			panic(unsupported(fmt.Sprintf("more than %d paths", maxPaths)))
		}
	}
	return cur
}

func normal(st *State) []Outcome { return []Outcome{{st: st, kind: kNormal}} }

func (fx *Fx) exec(st *State, s ast.Stmt) []Outcome {
	switch x := s.(type) {
	case *ast.BlockStmt:
		return fx.scoped(st, func(st *State) []Outcome { return fx.execBlock(st, x.List) })
	case *ast.ExprStmt:
		if call, ok := ast.Unparen(x.X).(*ast.CallExpr); ok {
			var outs []Outcome
			for _, r := range fx.evalCallMulti(st, call) {
				outs = append(outs, Outcome{st: r.st, kind: r.kind})
			}
			return outs
		}
		fx.eval(st, x.X, false)
		return normal(st)
	case *ast.AssignStmt:
		return fx.execAssign(st, x)
	case *ast.IncDecStmt:
		p := fx.evalPlace(st, x.X, false)
		v := fx.get(st, p)
		op := token.ADD
		if x.Tok == token.DEC {
			op = token.SUB
		}
		nv := fx.binop(st, op, v, Val{T: v.T, S: SInt, X: "1"}, exprText(x.X), false)
		fx.assignTo(st, p, nv)
		return normal(st)
	case *ast.DeclStmt:
		gd := x.Decl.(*ast.GenDecl)
		if gd.Tok == token.VAR {
			for _, sp := range gd.Specs {
				vs := sp.(*ast.ValueSpec)
				for i, n := range vs.Names {
					o := fx.pkg.info.Defs[n]
					if o == nil {
						continue
					}
					var v Val
					if i < len(vs.Values) {
						v = fx.coerce(st, fx.eval(st, vs.Values[i], false), o.Type())
					} else {
						v = Val{T: o.Type(), S: fx.d.sortOf(o.Type()), X: fx.d.zeroOf(o.Type())}
					}
					fx.declare(st, o, v)
				}
			}
		}
		return normal(st)
	case *ast.IfStmt:
		return fx.scoped(st, func(st *State) []Outcome {
			pre := normal(st)
			if x.Init != nil {
				pre = fx.exec(st, x.Init)
			}
			var outs []Outcome
			for _, p := range pre {
				if p.kind != kNormal {
					outs = append(outs, p)
					continue
				}
				for _, br := range fx.evalCond(p.st, x.Cond) {
					if br.kind != kNormal {
						outs = append(outs, Outcome{st: br.st, kind: br.kind})
						continue
					}
					if br.truth {
						outs = append(outs, fx.exec(br.st, x.Body)...)
					} else if x.Else != nil {
						outs = append(outs, fx.exec(br.st, x.Else)...)
					} else {
						outs = append(outs, Outcome{st: br.st, kind: kNormal})
					}
				}
			}
			return outs
		})
	case *ast.ForStmt:
		return fx.scoped(st, func(st *State) []Outcome { return fx.execFor(st, x, "") })
	case *ast.RangeStmt:
		return fx.scoped(st, func(st *State) []Outcome { return fx.execRange(st, x, "") })
	case *ast.LabeledStmt:
		switch b := x.Stmt.(type) {
		case *ast.ForStmt:
			return fx.scoped(st, func(st *State) []Outcome { return fx.execFor(st, b, x.Label.Name) })
		case *ast.RangeStmt:
			return fx.scoped(st, func(st *State) []Outcome { return fx.execRange(st, b, x.Label.Name) })
		}
		return fx.exec(st, x.Stmt)
	case *ast.ReturnStmt:
		return fx.execReturn(st, x)
	case *ast.BranchStmt:
		label := ""
		if x.Label != nil {
			label = x.Label.Name
		}
		switch x.Tok {
		case token.BREAK:
			return []Outcome{{st: st, kind: kBreak, label: label}}
		case token.CONTINUE:
			return []Outcome{{st: st, kind: kContinue, label: label}}
		}
		panic(unsupported("branch " + x.Tok.String()))
	case *ast.SwitchStmt:
		return fx.scoped(st, func(st *State) []Outcome { return fx.execSwitch(st, x) })
	case *ast.TypeSwitchStmt:
		return fx.scoped(st, func(st *State) []Outcome { return fx.execTypeSwitch(st, x) })
	case *ast.DeferStmt:
		return fx.execDefer(st, x)
	case *ast.GoStmt:
		return fx.execGo(st, x)
	case *ast.SelectStmt:
		return fx.execSelect(st, x)
	case *ast.SendStmt:
		return fx.execSend(st, x)
	case *ast.EmptyStmt:
		return normal(st)
	}
	panic(unsupported(fmt.Sprintf("statement %T", s)))
}

// scoped restores the contract-name table after a block (shadowing).
func (fx *Fx) scoped(st *State, f func(*State) []Outcome) []Outcome {
	saved := map[string]types.Object{}
	for k, v := range st.names {
		saved[k] = v
	}
	outs := f(st)
	for _, o := range outs {
		o.st.names = map[string]types.Object{}
		for k, v := range saved {
			o.st.names[k] = v
		}
	}
	return outs
}

func (fx *Fx) declare(st *State, o types.Object, v Val) {
	if v.T == nil || !v.hasPointerInfo() {
		v.T = o.Type()
	}
	st.env[o] = v
	if o.Name() != "_" {
		st.names[o.Name()] = o
	}
}

func (v Val) hasPointerInfo() bool { return v.Root != "" }

// coerce converts a value for storage into a location of type t (boxing into interfaces).
func (fx *Fx) coerce(st *State, v Val, t types.Type) Val {
	if t == nil {
		return v
	}
	if _, isIface := t.Underlying().(*types.Interface); isIface {
		if v.T != nil {
			if _, srcIface := v.T.Underlying().(*types.Interface); srcIface {
				return v
			}
		}
		if v.X == "nil" {
			return Val{T: t, S: SRef, X: "nil"}
		}
		return fx.box(st, v, t)
	}
	if v.X == "nil" && v.S == SRef {
		if ts := fx.d.sortOf(t); ts != SRef {
			fx.assumed["a nil slice is modelled as the empty sequence"] = true
			return Val{T: t, S: ts, X: fx.d.zeroOf(t)}
		}
	}
	if v.S == SInt && fx.d.sortOf(t) == SReal {
		return Val{T: t, S: SReal, X: app("to_real", v.X)}
	}
	return v
}

func (fx *Fx) assignTo(st *State, p Place, v Val) {
	if p.loc == nil {
		panic(unsupported("assignment to non-location"))
	}
	if fx.inSpec == 0 {
		fx.guardWrite(st, p.loc)
	}
	v = fx.coerce(st, v, p.loc.T)
	if p.loc.kind == locVar {
		if cur, ok := st.env[p.loc.obj]; ok && cur.Root == "@local" {
			// promoted local: write through its cell
			fx.store(st, &Loc{kind: locCell, key: "local_" + typeKey(p.loc.T), ref: cur.X, T: p.loc.T}, v)
			return
		}
		keepPtr := v
		keepPtr.T = p.loc.T
		if v.Root != "" {
			keepPtr = v
		}
		st.env[p.loc.obj] = keepPtr
		return
	}
	fx.store(st, p.loc, v)
}

func (fx *Fx) lhsPlace(st *State, e ast.Expr, define bool) (Place, bool) {
	if id, ok := e.(*ast.Ident); ok {
		if id.Name == "_" {
			return Place{}, false
		}
		if define {
			if o := fx.pkg.info.Defs[id]; o != nil {
				st.names[o.Name()] = o
				return Place{loc: &Loc{kind: locVar, obj: o, T: o.Type()}}, true
			}
		}
		o := fx.pkg.info.ObjectOf(id)
		if o == nil {
			panic(unsupported("assignment to unresolved " + id.Name))
		}
		return Place{loc: &Loc{kind: locVar, obj: o, T: o.Type()}}, true
	}
	// map element assignment
	if ix, ok := e.(*ast.IndexExpr); ok {
		if tv, ok := fx.pkg.info.Types[ix.X]; ok {
			if _, isMap := tv.Type.Underlying().(*types.Map); isMap {
				return Place{}, true // handled by caller via mapSet
			}
		}
	}
	return fx.evalPlace(st, e, false), true
}

func (fx *Fx) execAssign(st *State, x *ast.AssignStmt) []Outcome {
	define := x.Tok == token.DEFINE
	if x.Tok != token.ASSIGN && x.Tok != token.DEFINE {
		// op=
		p := fx.evalPlace(st, x.Lhs[0], false)
		cur := fx.get(st, p)
		rhs := fx.eval(st, x.Rhs[0], false)
		var op token.Token
		switch x.Tok {
		case token.ADD_ASSIGN:
			op = token.ADD
		case token.SUB_ASSIGN:
			op = token.SUB
		case token.MUL_ASSIGN:
			op = token.MUL
		case token.QUO_ASSIGN:
			op = token.QUO
		case token.REM_ASSIGN:
			op = token.REM
		default:
			panic(unsupported("assignment operator " + x.Tok.String()))
		}
		fx.assignTo(st, p, fx.binop(st, op, cur, rhs, exprText(x.Lhs[0])+x.Tok.String()+exprText(x.Rhs[0]), false))
		return normal(st)
	}
	// tuple-producing right-hand sides
	if len(x.Rhs) == 1 && len(x.Lhs) >= 1 {
		rhs := ast.Unparen(x.Rhs[0])
		if call, ok := rhs.(*ast.CallExpr); ok {
			var outs []Outcome
			for _, r := range fx.evalCallMulti(st, call) {
				if r.kind != kNormal {
					outs = append(outs, Outcome{st: r.st, kind: r.kind})
					continue
				}
				fx.assignAll(r.st, x.Lhs, r.vals, define)
				outs = append(outs, Outcome{st: r.st, kind: kNormal})
			}
			return outs
		}
		if len(x.Lhs) == 2 {
			switch r := rhs.(type) {
			case *ast.TypeAssertExpr:
				vs := fx.evalTypeAssert(st, r, true)
				fx.assignAll(st, x.Lhs, vs, define)
				return normal(st)
			case *ast.IndexExpr:
				mv := fx.eval(st, r.X, false)
				k := fx.eval(st, r.Index, false)
				m := mv.T.Underlying().(*types.Map)
				v := fx.mapGet(st, mv, m, k)
				ok := fx.mapHas(st, mv, m, k)
				fx.assignAll(st, x.Lhs, []Val{v, {T: types.Typ[types.Bool], S: SBool, X: ok}}, define)
				return normal(st)
			case *ast.UnaryExpr:
				if r.Op == token.ARROW {
					vs := fx.chanRecv2(st, r)
					fx.assignAll(st, x.Lhs, vs, define)
					return normal(st)
				}
			}
		}
	}
	if len(x.Lhs) != len(x.Rhs) {
		panic(unsupported("assignment shape"))
	}
	vals := make([]Val, len(x.Rhs))
	for i, r := range x.Rhs {
		vals[i] = fx.eval(st, r, false)
	}
	fx.assignAll(st, x.Lhs, vals, define)
	return normal(st)
}

func (fx *Fx) assignAll(st *State, lhs []ast.Expr, vals []Val, define bool) {
	if len(vals) < len(lhs) {
		panic(unsupported("not enough values in assignment"))
	}
	for i, l := range lhs {
		if ix, ok := ast.Unparen(l).(*ast.IndexExpr); ok {
			if tv, ok := fx.pkg.info.Types[ix.X]; ok {
				if m, isMap := tv.Type.Underlying().(*types.Map); isMap {
					mv := fx.eval(st, ix.X, false)
					k := fx.eval(st, ix.Index, false)
					fx.mapSet(st, mv, m, k, fx.coerce(st, vals[i], m.Elem()), exprText(ix.X))
					continue
				}
			}
		}
		p, ok := fx.lhsPlace(st, l, define)
		if !ok {
			continue
		}
		fx.assignTo(st, p, vals[i])
	}
}

type condBranch struct {
	st    *State
	truth bool
	kind  int
}

// evalCond evaluates a condition, splitting paths on short-circuit operators so that calls with effects stay ordered.
func (fx *Fx) evalCond(st *State, e ast.Expr) []condBranch {
	e = ast.Unparen(e)
	if e == nil {
		return []condBranch{{st: st, truth: true}}
	}
	switch x := e.(type) {
	case *ast.UnaryExpr:
		if x.Op == token.NOT {
			brs := fx.evalCond(st, x.X)
			for i := range brs {
				if brs[i].kind == kNormal {
					brs[i].truth = !brs[i].truth
				}
			}
			return brs
		}
	case *ast.BinaryExpr:
		if (x.Op == token.LAND || x.Op == token.LOR) && fx.hasEffects(x) {
			var outs []condBranch
			for _, l := range fx.evalCond(st, x.X) {
				if l.kind != kNormal {
					outs = append(outs, l)
					continue
				}
				if (x.Op == token.LAND && !l.truth) || (x.Op == token.LOR && l.truth) {
					outs = append(outs, l)
					continue
				}
				outs = append(outs, fx.evalCond(l.st, x.Y)...)
			}
			return outs
		}
	case *ast.CallExpr:
		if fx.isMultiCall(x) || fx.closureOf(st, x) != nil {
			var outs []condBranch
			for _, r := range fx.evalCallMulti(st, x) {
				if r.kind != kNormal {
					outs = append(outs, condBranch{st: r.st, kind: r.kind})
					continue
				}
				t := r.st.clone()
				t.assume(r.vals[0].X)
				f := r.st
				f.assume(not(r.vals[0].X))
				outs = append(outs, condBranch{st: t, truth: true}, condBranch{st: f, truth: false})
			}
			return outs
		}
	}
	c := fx.boolTerm(st, e, false)
	// cheap pruning of branches that contradict a fact already on the path (repeated tests of the same condition)
	nc := not(c)
	hasC, hasNC := c == "true", c == "false"
	for _, a := range st.pc {
		if a == c {
			hasC = true
		} else if a == nc {
			hasNC = true
		}
	}
	if hasC && !hasNC {
		return []condBranch{{st: st, truth: true}}
	}
	if hasNC && !hasC {
		return []condBranch{{st: st, truth: false}}
	}
	t := st.clone()
	t.assume(c)
	st.assume(nc)
	return []condBranch{{st: t, truth: true}, {st: st, truth: false}}
}

// hasEffects reports whether an expression contains a call that may change state or emit obligations in callee position.
func (fx *Fx) hasEffects(e ast.Expr) bool {
	found := false
	ast.Inspect(e, func(n ast.Node) bool {
		if c, ok := n.(*ast.CallExpr); ok {
			if tv, ok := fx.pkg.info.Types[c.Fun]; ok && tv.IsType() {
				return true
			}
			if id, ok := ast.Unparen(c.Fun).(*ast.Ident); ok {
				if _, isB := fx.pkg.info.Uses[id].(*types.Builtin); isB {
					return true
				}
			}
			if fx.isPureCall(c) {
				return true
			}
			found = true
		}
		return true
	})
	return found
}

func (fx *Fx) execReturn(st *State, x *ast.ReturnStmt) []Outcome {
	nres := len(fx.results)
	if len(x.Results) == 0 {
		st.retVals = nil
		for _, o := range fx.results {
			st.retVals = append(st.retVals, st.env[o])
		}
		return []Outcome{{st: st, kind: kReturn}}
	}
	if len(x.Results) == 1 && nres >= 1 {
		if call, ok := ast.Unparen(x.Results[0]).(*ast.CallExpr); ok {
			var outs []Outcome
			for _, r := range fx.evalCallMulti(st, call) {
				if r.kind != kNormal {
					outs = append(outs, Outcome{st: r.st, kind: r.kind})
					continue
				}
				fx.setResults(r.st, r.vals)
				outs = append(outs, Outcome{st: r.st, kind: kReturn})
			}
			return outs
		}
	}
	vals := make([]Val, len(x.Results))
	for i, r := range x.Results {
		vals[i] = fx.eval(st, r, false)
	}
	fx.setResults(st, vals)
	return []Outcome{{st: st, kind: kReturn}}
}

func (fx *Fx) setResults(st *State, vals []Val) {
	st.retVals = nil
	for i, v := range vals {
		if i < len(fx.results) {
			v = fx.coerce(st, v, fx.results[i].Type())
			if v.Root == "" {
				v.T = fx.results[i].Type()
			}
			st.env[fx.results[i]] = v
		}
		st.retVals = append(st.retVals, v)
	}
}

func (fx *Fx) execSwitch(st *State, x *ast.SwitchStmt) []Outcome {
	pre := normal(st)
	if x.Init != nil {
		pre = fx.exec(st, x.Init)
	}
	var outs []Outcome
	for _, p := range pre {
		if p.kind != kNormal {
			outs = append(outs, p)
			continue
		}
		cur := p.st
		var tag *Val
		if x.Tag != nil {
			v := fx.eval(cur, x.Tag, false)
			tag = &v
		}
		var deflt *ast.CaseClause
		remaining := cur
		for _, c := range x.Body.List {
			cc := c.(*ast.CaseClause)
			if cc.List == nil {
				deflt = cc
				continue
			}
			var conds []string
			for _, e := range cc.List {
				if tag != nil {
					v := fx.eval(remaining, e, false)
					conds = append(conds, fx.binop(remaining, token.EQL, *tag, v, exprText(e), false).X)
				} else {
					conds = append(conds, fx.boolTerm(remaining, e, false))
				}
			}
			c := or(conds...)
			hit := remaining.clone()
			hit.assume(c)
			remaining.assume(not(c))
			outs = append(outs, fx.switchBody(hit, cc.Body)...)
		}
		if deflt != nil {
			outs = append(outs, fx.switchBody(remaining, deflt.Body)...)
		} else {
			outs = append(outs, Outcome{st: remaining, kind: kNormal})
		}
	}
	return outs
}

func (fx *Fx) switchBody(st *State, body []ast.Stmt) []Outcome {
	var outs []Outcome
	for _, o := range fx.execBlock(st, body) {
		if o.kind == kBreak && o.label == "" {
			o.kind = kNormal
		}
		outs = append(outs, o)
	}
	return outs
}

func (fx *Fx) execTypeSwitch(st *State, x *ast.TypeSwitchStmt) []Outcome {
	var bindName *ast.Ident
	var subject ast.Expr
	switch a := x.Assign.(type) {
	case *ast.AssignStmt:
		bindName = a.Lhs[0].(*ast.Ident)
		subject = a.Rhs[0].(*ast.TypeAssertExpr).X
	case *ast.ExprStmt:
		subject = a.X.(*ast.TypeAssertExpr).X
	}
	_ = bindName
	v := fx.eval(st, subject, false)
	var outs []Outcome
	remaining := st
	var deflt *ast.CaseClause
	for _, c := range x.Body.List {
		cc := c.(*ast.CaseClause)
		if cc.List == nil {
			deflt = cc
			continue
		}
		if len(cc.List) != 1 {
			panic(unsupported("type switch case with several types"))
		}
		var cond string
		var ct types.Type
		if id, ok := cc.List[0].(*ast.Ident); ok && id.Name == "nil" {
			cond = app("=", v.X, "nil")
		} else {
			ct = fx.pkg.info.Types[cc.List[0]].Type
			if _, isIface := ct.Underlying().(*types.Interface); isIface {
				p := fx.d.declareFun("implements_"+typeKey(ct), []string{SRef}, SBool)
				cond = and(not(app("=", v.X, "nil")), app(p, v.X))
			} else {
				cond = and(not(app("=", v.X, "nil")), app("=", app("dyntype", v.X), fmt.Sprint(fx.v.typeID(ct))))
			}
		}
		hit := remaining.clone()
		hit.assume(cond)
		remaining.assume(not(cond))
		if o := fx.pkg.info.Implicits[cc]; o != nil && ct != nil {
			fx.declare(hit, o, fx.unbox(hit, v, ct))
		}
		outs = append(outs, fx.switchBody(hit, cc.Body)...)
	}
	if deflt != nil {
		if o := fx.pkg.info.Implicits[deflt]; o != nil {
			fx.declare(remaining, o, v)
		}
		outs = append(outs, fx.switchBody(remaining, deflt.Body)...)
	} else {
		outs = append(outs, Outcome{st: remaining, kind: kNormal})
	}
	return outs
}
