package main

// Models of the standard-library functions the code under contract calls. Each model is a true statement
// about the Go standard library (documented behaviour); every model used is listed in the evidence.

import (
	"fmt"
	"go/ast"
	"go/constant"
	"go/types"
	"net/textproto"
	"strings"
)

func (fx *Fx) stdlibCall(st *State, fn *types.Func, recvExpr ast.Expr, call *ast.CallExpr, spec bool) []Val {
	var args []Val
	if recvExpr != nil {
		if strings.HasPrefix(fn.FullName(), "(*sync.") && fx.mutexCall(st, fn.FullName(), recvExpr) {
			return nil
		}
		if strings.HasPrefix(fn.FullName(), "(*strings.Builder).") {
			p := fx.evalPlace(st, recvExpr, spec)
			var args []Val
			for _, a := range call.Args {
				args = append(args, fx.eval(st, a, spec))
			}
			cur := fx.get(st, p)
			if cur.S == SRef { // *strings.Builder
				l := fx.derefLoc(st, cur)
				p = Place{loc: l}
				cur = fx.load(st, l)
			}
			fx.assumed["strings.Builder is modelled by its content (WriteString/WriteByte append, Reset empties, String reads)"] = true
			bt := cur.T
			switch fn.Name() {
			case "WriteString":
				fx.assignTo(st, p, Val{T: bt, S: SStr, X: app("sconcat", cur.X, args[0].X)})
				return []Val{{T: types.Typ[types.Int], S: SInt, X: app("slen", args[0].X)}, {S: SRef, X: "nil"}}
			case "WriteByte":
				b := fx.d.freshConst("onebyte", SStr)
				st.assume(and(app("=", app("slen", b), "1"), app("=", app("sat", b, "0"), args[0].X)))
				fx.assignTo(st, p, Val{T: bt, S: SStr, X: app("sconcat", cur.X, b)})
				return []Val{{S: SRef, X: "nil"}}
			case "String":
				return []Val{{T: types.Typ[types.String], S: SStr, X: cur.X}}
			case "Reset":
				fx.assignTo(st, p, Val{T: bt, S: SStr, X: "str_empty"})
				return nil
			case "Len":
				return []Val{{T: types.Typ[types.Int], S: SInt, X: app("slen", cur.X)}}
			}
			panic(unsupported("strings.Builder method " + fn.Name()))
		}
		if strings.HasPrefix(fn.FullName(), "(*log/slog.Logger).") {
			fx.note("log/slog calls are skipped (no effect on tracked state)")
			return nil
		}
		if fn.FullName() == "(*net/http.Client).Do" {
			recv := fx.eval(st, recvExpr, spec)
			req := fx.eval(st, call.Args[0], spec)
			sig := fn.Type().(*types.Signature)
			// ghost snapshot of the Last-Event-Id header of the request at the time of the call
			reqLoc := fx.derefLoc(st, req)
			hv := fx.fieldOf(st, fx.load(st, reqLoc), "Header", nil)
			hm := hv.T.Underlying().(*types.Map)
			key := "Last-Event-Id"
			kv := Val{T: types.Typ[types.String], S: SStr, X: fx.d.strLit(key), Lit: &key}
			n := fx.trCount(st)
			has := fx.mapHas(st, hv, hm, kv)
			ids := fx.mapGet(st, hv, hm, kv)
			st.trCols["do_hasid"] = app("store", fx.trCol(st, "do_hasid", SBool), n, has)
			st.trCols["do_idlen"] = app("store", fx.trCol(st, "do_idlen", SInt), n, fx.seqLen(ids))
			st.trCols["do_id"] = app("store", fx.trCol(st, "do_id", SStr), n, fx.indexVal(st, ids, "0", types.Typ[types.String]).X)
			bodyV := fx.fieldOf(st, fx.load(st, reqLoc), "Body", nil)
			st.trCols["do_body"] = app("store", fx.trCol(st, "do_body", SRef), n, bodyV.X)
			rs := fx.abstractCall(st, recv.X, "Do", []Val{req}, sig, call)
			res, err := rs[0], rs[1]
			urlErr := fx.v.lookupType("net/url", "Error")
			st.assume(implies(not(app("=", err.X, "nil")), and(app("=", res.X, "nil"), app("=", app("dyntype", err.X), fmt.Sprint(fx.v.typeID(types.NewPointer(urlErr)))))))
			st.assume(implies(app("=", err.X, "nil"), not(app("=", res.X, "nil"))))
			if urlErr != nil {
				// a *url.Error always wraps a cause
				cell := fx.load(st, &Loc{kind: locCell, key: cellKey(urlErr), ref: err.X, T: urlErr})
				cause := fx.fieldOf(st, cell, "Err", nil)
				st.assume(implies(not(app("=", err.X, "nil")), not(app("=", cause.X, "nil"))))
			}
			fx.assumed["net/http: Client.Do returns a non-nil response or a *url.Error wrapping a non-nil cause"] = true
			return rs
		}
		if fn.FullName() == "(*time.Timer).Reset" || fn.FullName() == "(*time.Timer).Stop" {
			recv := fx.eval(st, recvExpr, spec)
			var args []Val
			for _, a := range call.Args {
				args = append(args, fx.eval(st, a, spec))
			}
			return fx.abstractCall(st, recv.X, "Timer"+fn.Name(), args, fn.Type().(*types.Signature), call)
		}
		if fn.FullName() == "(*net/http.Request).Clone" {
			fx.eval(st, recvExpr, spec)
			for _, a := range call.Args {
				fx.eval(st, a, spec)
			}
			fx.assumed["stdlib model: (*net/http.Request).Clone returns a new request"] = true
			return []Val{{T: fn.Type().(*types.Signature).Results().At(0).Type(), S: SRef, X: fx.alloc(st, "request")}}
		}
		if fn.FullName() == "(*net/http.Request).Context" {
			return []Val{fx.freshVal(st, "ctx", fn.Type().(*types.Signature).Results().At(0).Type())}
		}
		recv := fx.eval(st, recvExpr, spec)
		for _, a := range call.Args {
			args = append(args, fx.eval(st, a, spec))
		}
		if vs, ok := fx.stdlibMethod(st, fn, recv, args); ok {
			return vs
		}
		panic(unsupported("standard library method " + fn.FullName()))
	}
	for _, a := range call.Args {
		args = append(args, fx.eval(st, a, spec))
	}
	name := fn.FullName()
	fx.assumed["stdlib model: "+name] = true
	boolV := func(t string) []Val { return []Val{{T: types.Typ[types.Bool], S: SBool, X: t}} }
	sig := fn.Type().(*types.Signature)
	switch name {
	case "strings.IndexByte":
		return []Val{fx.indexByte(st, args[0], args[1])}
	case "slices.Contains":
		sq, x := args[0], args[1]
		if !strings.HasPrefix(sq.S, "Seq_") {
			panic(unsupported("slices.Contains over " + sq.S))
		}
		r := fx.d.freshConst("contains", SBool)
		k := fx.d.freshConst("containsat", SInt)
		ln := app("len_"+sq.S, sq.X)
		arr := app("arr_"+sq.S, sq.X)
		st.assume(implies(r, and(app("<=", "0", k), app("<", k, ln), app("=", app("select", arr, k), x.X))))
		st.assume(implies(not(r), fmt.Sprintf("(forall ((i Int)) (! (=> (and (<= 0 i) (< i %s)) (not (= (select %s i) %s))) :pattern ((select %s i))))", ln, arr, x.X, arr)))
		return boolV(r)
	case "strings.Cut", "strings.Contains", "strings.Index":
		// separator given as a one-byte ASCII literal: the first occurrence of that byte decides
		sv, p := args[0], args[1]
		if p.Lit == nil || len(*p.Lit) != 1 || (*p.Lit)[0] >= 0x80 {
			panic(unsupported(name + " with a separator that is not a one-byte ASCII literal"))
		}
		r := fx.indexByte(st, sv, Val{T: types.Typ[types.Uint8], S: SInt, X: fmt.Sprint((*p.Lit)[0])})
		found := app(">=", r.X, "0")
		switch name {
		case "strings.Contains":
			return boolV(found)
		case "strings.Index":
			return []Val{r}
		}
		ln := app("slen", sv.X)
		return []Val{
			{T: types.Typ[types.String], S: SStr, X: app("ite", found, app("ssub", sv.X, "0", r.X), sv.X)},
			{T: types.Typ[types.String], S: SStr, X: app("ite", found, app("ssub", sv.X, app("+", r.X, "1"), ln), "str_empty")},
			{T: types.Typ[types.Bool], S: SBool, X: found},
		}
	case "strings.HasPrefix":
		s, p := args[0], args[1]
		if p.Lit == nil {
			panic(unsupported("HasPrefix with non-literal prefix"))
		}
		parts := []string{app(">=", app("slen", s.X), fmt.Sprint(len(*p.Lit)))}
		for i := 0; i < len(*p.Lit); i++ {
			parts = append(parts, app("=", app("sat", s.X, fmt.Sprint(i)), fmt.Sprint((*p.Lit)[i])))
		}
		return boolV(and(parts...))
	case "strings.HasSuffix", "strings.TrimSuffix", "strings.TrimPrefix":
		sv, p := args[0], args[1]
		if p.Lit == nil {
			panic(unsupported(name + " with a non-literal affix"))
		}
		n := len(*p.Lit)
		ln := app("slen", sv.X)
		parts := []string{app(">=", ln, fmt.Sprint(n))}
		for i := 0; i < n; i++ {
			pos := fmt.Sprint(i)
			if name != "strings.TrimPrefix" {
				pos = app("+", app("-", ln, fmt.Sprint(n)), fmt.Sprint(i))
			}
			parts = append(parts, app("=", app("sat", sv.X, pos), fmt.Sprint((*p.Lit)[i])))
		}
		has := and(parts...)
		switch name {
		case "strings.HasSuffix":
			return boolV(has)
		case "strings.TrimSuffix":
			return []Val{{T: types.Typ[types.String], S: SStr, X: app("ite", has, app("ssub", sv.X, "0", app("-", ln, fmt.Sprint(n))), sv.X)}}
		}
		return []Val{{T: types.Typ[types.String], S: SStr, X: app("ite", has, app("ssub", sv.X, fmt.Sprint(n), ln), sv.X)}}
	case "strings.TrimRight", "strings.TrimLeft":
		// cutset of ASCII bytes given as a literal: the longest run of cutset bytes at that end is removed
		sv, p := args[0], args[1]
		if p.Lit == nil || !isASCII(*p.Lit) {
			panic(unsupported(name + " with a cutset that is not an ASCII literal"))
		}
		in := func(x string) string {
			var alts []string
			for i := 0; i < len(*p.Lit); i++ {
				alts = append(alts, app("=", x, fmt.Sprint((*p.Lit)[i])))
			}
			if len(alts) == 0 {
				return "false"
			}
			return or(alts...)
		}
		ln := app("slen", sv.X)
		k := fx.d.freshConst("trimpos", SInt)
		st.assume(and(app("<=", "0", k), app("<=", k, ln)))
		if name == "strings.TrimRight" {
			st.assume(implies(app(">", k, "0"), not(in(app("sat", sv.X, app("-", k, "1"))))))
			st.assume(fmt.Sprintf("(forall ((i Int)) (! (=> (and (<= %s i) (< i %s)) %s) :pattern ((sat %s i))))", k, ln, in(app("sat", sv.X, "i")), sv.X))
			return []Val{{T: types.Typ[types.String], S: SStr, X: app("ssub", sv.X, "0", k)}}
		}
		st.assume(implies(app("<", k, ln), not(in(app("sat", sv.X, k)))))
		st.assume(fmt.Sprintf("(forall ((i Int)) (! (=> (and (<= 0 i) (< i %s)) %s) :pattern ((sat %s i))))", k, in(app("sat", sv.X, "i")), sv.X))
		return []Val{{T: types.Typ[types.String], S: SStr, X: app("ssub", sv.X, k, ln)}}
	case "strings.IndexAny", "strings.ContainsAny", "strings.ContainsRune", "strings.IndexRune":
		// ASCII characters only: every byte of a multi-byte rune is >= 0x80, so bytes decide
		sv, p := args[0], args[1]
		var set []byte
		if name == "strings.ContainsRune" || name == "strings.IndexRune" {
			tv, ok := fx.pkg.info.Types[call.Args[1]]
			if !ok || tv.Value == nil {
				panic(unsupported(name + " with a non-constant rune"))
			}
			c, _ := constant.Int64Val(tv.Value)
			if c < 0 || c >= 0x80 {
				panic(unsupported(name + " with a non-ASCII rune"))
			}
			set = []byte{byte(c)}
		} else {
			if p.Lit == nil || !isASCII(*p.Lit) {
				panic(unsupported(name + " with a character set that is not an ASCII literal"))
			}
			set = []byte(*p.Lit)
		}
		in := func(x string) string {
			var alts []string
			for _, c := range set {
				alts = append(alts, app("=", x, fmt.Sprint(c)))
			}
			if len(alts) == 0 {
				return "false"
			}
			return or(alts...)
		}
		r := fx.d.freshConst("indexany", SInt)
		st.assume(and(app("<=", "(- 1)", r), app("<", r, app("slen", sv.X))))
		st.assume(implies(app(">=", r, "0"), in(app("sat", sv.X, r))))
		st.assume(fmt.Sprintf("(forall ((i Int)) (! (=> (and (<= 0 i) (< i (ite (>= %s 0) %s (slen %s)))) (not %s)) :pattern ((sat %s i))))", r, r, sv.X, in(app("sat", sv.X, "i")), sv.X))
		if strings.HasPrefix(name, "strings.Contains") {
			return boolV(app(">=", r, "0"))
		}
		return []Val{{T: types.Typ[types.Int], S: SInt, X: r}}
	case "strconv.FormatUint":
		// fmtU (and parseU_ok / parseU_val below) are the decimal functions the contracts talk about; any other base is a
		// different, unrelated function
		if b := constInt(fx, call.Args[1]); b != 10 {
			f := fx.d.declareFun(fmt.Sprintf("fmtU_b%d", b), []string{SInt}, SStr)
			return []Val{{T: types.Typ[types.String], S: SStr, X: app(f, args[0].X)}}
		}
		return []Val{{T: types.Typ[types.String], S: SStr, X: app("fmtU", args[0].X)}}
	case "strconv.ParseUint":
		s := args[0]
		v := fx.d.freshConst("parseuint", SInt)
		e := fx.d.freshConst("parseuint_err", SRef)
		if b, bits := constInt(fx, call.Args[1]), constInt(fx, call.Args[2]); b != 10 || bits != 64 {
			okF := fx.d.declareFun(fmt.Sprintf("parseU_ok_b%d_%d", b, bits), []string{SStr}, SBool)
			valF := fx.d.declareFun(fmt.Sprintf("parseU_val_b%d_%d", b, bits), []string{SStr}, SInt)
			st.assume(app("=", app("=", e, "nil"), app(okF, s.X)))
			st.assume(implies(app(okF, s.X), app("=", v, app(valF, s.X))))
			st.assume(and(app("<=", "0", v), app("<=", v, "18446744073709551615")))
			return []Val{{T: types.Typ[types.Uint64], S: SInt, X: v}, {T: sig.Results().At(1).Type(), S: SRef, X: e}}
		}
		st.assume(app("=", app("=", e, "nil"), app("parseU_ok", s.X)))
		st.assume(implies(app("parseU_ok", s.X), app("=", v, app("parseU_val", s.X))))
		st.assume(and(app("<=", "0", v), app("<=", v, "18446744073709551615")))
		return []Val{{T: types.Typ[types.Uint64], S: SInt, X: v}, {T: sig.Results().At(1).Type(), S: SRef, X: e}}
	case "strconv.ParseInt":
		s := args[0]
		v := fx.d.freshConst("parseint", SInt)
		e := fx.d.freshConst("parseint_err", SRef)
		// parseI_ok / parseI_val (parseIok, parseIval in contracts) are the base-10, 64-bit reading; any other base or
		// size is a different, unrelated function
		okF, valF := "parseI_ok", "parseI_val"
		if b, bits := constInt(fx, call.Args[1]), constInt(fx, call.Args[2]); b != 10 || bits != 64 {
			okF, valF = fmt.Sprintf("parseI_ok_b%d_%d", b, bits), fmt.Sprintf("parseI_val_b%d_%d", b, bits)
		}
		if okF != "parseI_ok" {
			okF = fx.d.declareFun(okF, []string{SStr}, SBool)
			valF = fx.d.declareFun(valF, []string{SStr}, SInt)
		}
		st.assume(app("=", app("=", e, "nil"), app(okF, s.X)))
		st.assume(implies(app(okF, s.X), app("=", v, app(valF, s.X))))
		st.assume(implies(app(okF, s.X), app(">", app("slen", s.X), "0"))) // the empty string is a syntax error
		st.assume(implies(and(app(okF, s.X), not(app("=", app("sat", s.X, "0"), "45"))), app(">=", v, "0"))) // negative only with a leading '-'
		st.assume(and(app("<=", minInt, v), app("<=", v, maxInt)))
		return []Val{{T: types.Typ[types.Int64], S: SInt, X: v}, {T: sig.Results().At(1).Type(), S: SRef, X: e}}
	case "errors.New", "fmt.Errorf":
		r := fx.alloc(st, "err")
		return []Val{{T: sig.Results().At(0).Type(), S: SRef, X: r}}
	case "errors.Is":
		// an uninterpreted relation of both arguments (not symmetric: errors.Is(wrapped, cause) does not give
		// errors.Is(cause, wrapped)); known facts: with a nil argument it is equality, and every error is itself
		e, t := args[0], args[1]
		f := fx.d.declareFun("errIs", []string{SRef, SRef}, SBool)
		b := app(f, e.X, t.X)
		st.assume(implies(or(app("=", e.X, "nil"), app("=", t.X, "nil")), app("=", b, app("=", e.X, t.X))))
		st.assume(implies(app("=", e.X, t.X), b))
		return boolV(b)
	case "strings.IndexFunc", "strings.ContainsFunc":
		// only for the predicate "is not an ASCII digit" (every byte of a multi-byte rune is >= 0x80, so bytes decide)
		lit, _ := ast.Unparen(call.Args[1]).(*ast.FuncLit)
		if lit == nil || !isNonDigitPredicate(lit) {
			panic(unsupported(name + " with a predicate other than `r < '0' || r > '9'`"))
		}
		sv := args[0]
		r := fx.d.freshConst("indexfunc", SInt)
		digit := func(x string) string { return and(app("<=", "48", x), app("<=", x, "57")) }
		st.assume(and(app("<=", "(- 1)", r), app("<", r, app("slen", sv.X))))
		st.assume(implies(app(">=", r, "0"), not(digit(app("sat", sv.X, r)))))
		st.assume(fmt.Sprintf("(forall ((i Int)) (! (=> (and (<= 0 i) (< i (ite (>= %s 0) %s (slen %s)))) %s) :pattern ((sat %s i))))", r, r, sv.X, digit(app("sat", sv.X, "i")), sv.X))
		if name == "strings.ContainsFunc" {
			return boolV(app(">=", r, "0"))
		}
		return []Val{{T: types.Typ[types.Int], S: SInt, X: r}}
	case "unicode/utf8.DecodeRuneInString":
		return []Val{fx.freshVal(st, "rune", sig.Results().At(0).Type()), fx.freshVal(st, "size", sig.Results().At(1).Type())}
	case "encoding/json.Unmarshal":
		// into *string: an arbitrary string, or an error (the target is then left as it was or holds anything)
		e := fx.d.freshConst("json_err", SRef)
		l := fx.derefLoc(st, args[1])
		if fx.d.sortOf(l.T) != SStr {
			panic(unsupported("json.Unmarshal into " + l.T.String()))
		}
		fx.store(st, l, fx.freshVal(st, "json_string", l.T))
		return []Val{{T: sig.Results().At(0).Type(), S: SRef, X: e}}
	case "net/http.Error":
		// recorded in the ghost call trace as a call on the response writer
		return fx.abstractCall(st, args[0].X, "httpError", args[1:], nil, call)
	case "time.NewTimer":
		r := fx.alloc(st, "timer")
		return []Val{{T: sig.Results().At(0).Type(), S: SRef, X: r}}
	case "bufio.NewScanner":
		r := fx.alloc(st, "scanner")
		fx.scannerCell(st, r)
		fx.scannerStore(st, r, "(mk_GScanner false nil str_empty false 0)")
		return []Val{{T: sig.Results().At(0).Type(), S: SRef, X: r}}
	case "time.Now":
		r := fx.d.freshConst("now", SInt)
		st.assume(not(app("=", r, "0")))
		fx.assumed["time.Time is an integer instant; time.Now never returns the zero instant"] = true
		st.ghost["lastnow"] = Val{T: sig.Results().At(0).Type(), S: SInt, X: r} // timenow() in contracts
		return []Val{{T: sig.Results().At(0).Type(), S: SInt, X: r}}
	case "time.Since":
		r := fx.d.freshConst("since", SInt)
		st.assume(app("<=", "0", r))
		fx.assumed["time.Since is non-negative"] = true
		st.ghost["lastsince"] = Val{T: sig.Results().At(0).Type(), S: SInt, X: r} // timesince() in contracts
		return []Val{{T: sig.Results().At(0).Type(), S: SInt, X: r}}
	case "math/rand.New", "math/rand.NewSource":
		return []Val{{T: sig.Results().At(0).Type(), S: SRef, X: fx.alloc(st, "rng")}}
	}
	panic(unsupported("standard library function " + name))
}

func isNonDigitPredicate(lit *ast.FuncLit) bool {
	if len(lit.Body.List) != 1 {
		return false
	}
	ret, ok := lit.Body.List[0].(*ast.ReturnStmt)
	if !ok || len(ret.Results) != 1 {
		return false
	}
	return exprText(ret.Results[0]) == "r < '0' || r > '9'"
}

// indexByte: strings.IndexByte as an uninterpreted function whose defining facts are instantiated per use.
// constInt: the value of a constant integer expression, -1 if it is not constant
func constInt(fx *Fx, e ast.Expr) int64 {
	if tv, ok := fx.pkg.info.Types[e]; ok && tv.Value != nil {
		if v, ok := constant.Int64Val(tv.Value); ok {
			return v
		}
	}
	return -1
}

func isASCII(s string) bool {
	for i := 0; i < len(s); i++ {
		if s[i] >= 0x80 {
			return false
		}
	}
	return true
}

func (fx *Fx) indexByte(st *State, s, c Val) Val {
	f := fx.d.declareFun("indexbyte", []string{SStr, SInt}, SInt)
	r := app(f, s.X, c.X)
	st.assume(and(app("<=", "(- 1)", r), app("<", r, app("slen", s.X))))
	st.assume(implies(app(">=", r, "0"), app("=", app("sat", s.X, r), c.X)))
	st.assume(fmt.Sprintf("(forall ((i Int)) (! (=> (and (<= 0 i) (< i (ite (>= %s 0) %s (slen %s)))) (not (= (sat %s i) %s))) :pattern ((sat %s i))))", r, r, s.X, s.X, c.X, s.X))
	return Val{T: types.Typ[types.Int], S: SInt, X: r}
}

// ---------- bufio.Scanner: assumed contract with ghost state {done, err, tok, started} ----------

const scannerSort = "GScanner"

func (fx *Fx) scannerCell(st *State, sc string) string {
	fx.d.ensureSort(scannerSort, "(declare-datatypes ((GScanner 0)) (((mk_GScanner (sc_done Bool) (sc_err Ref) (sc_tok Str) (sc_started Bool) (sc_max Int)))))")
	h := fx.heapTerm(st, "ghost_scanner", scannerSort)
	return app("select", h, sc)
}

func (fx *Fx) scannerStore(st *State, sc, cell string) {
	h := fx.heapTerm(st, "ghost_scanner", scannerSort)
	st.heap["ghost_scanner"] = fx.share(app("store", h, sc, cell), "(Array Ref "+scannerSort+")")
}

func (fx *Fx) scannerMethod(st *State, name string, recv Val, args []Val, sig *types.Signature) ([]Val, bool) {
	c := fx.scannerCell(st, recv.X)
	done, err, tok, started, max := app("sc_done", c), app("sc_err", c), app("sc_tok", c), app("sc_started", c), app("sc_max", c)
	fx.assumed["bufio.Scanner contract: Scan returns false exactly when the input is exhausted or an error is set, Err() then returns that error (io.EOF as nil); tokens come from the split function"] = true
	switch name {
	case "(*bufio.Scanner).Scan":
		b := fx.d.freshConst("scan", SBool)
		st.assume(implies(done, not(b)))
		ntok := fx.d.freshConst("token", SStr)
		nerr := fx.d.freshConst("scanerr", SRef)
		fx.older(st, nerr)
		fx.scannerStore(st, recv.X, app("mk_GScanner", or(done, not(b)), ite(or(done, b), err, nerr), ite(b, ntok, tok), "true", max))
		if st.ghost["scan_count"].X == "" {
			st.ghost["scan_count"] = Val{S: SInt, X: "0"}
		}
		return []Val{{T: types.Typ[types.Bool], S: SBool, X: b}}, true
	case "(*bufio.Scanner).Text":
		return []Val{{T: types.Typ[types.String], S: SStr, X: tok}}, true
	case "(*bufio.Scanner).Bytes":
		return []Val{{T: types.NewSlice(types.Typ[types.Byte]), S: SStr, X: tok}}, true
	case "(*bufio.Scanner).Err":
		return []Val{{T: sig.Results().At(0).Type(), S: SRef, X: ite(done, err, "nil")}}, true
	case "(*bufio.Scanner).Buffer":
		if fx.inSpec == 0 {
			fx.oblige(st, "panic", "Scanner.Buffer after Scan", not(started), "bufio.Scanner.Buffer panics once scanning has started")
		}
		fx.scannerStore(st, recv.X, app("mk_GScanner", done, err, tok, started, args[1].X))
		return nil, true
	case "(*bufio.Scanner).Split":
		// ghost: which function was installed, and on which receiver (method value)
		id, rv := "0", "nil"
		if f := args[0].Fn; f != nil && f.Key != "" {
			id = fmt.Sprint(fx.v.fnID(f.Key))
			if f.Recv != nil {
				rv = f.Recv.X
			}
		}
		hf := fx.heapTerm(st, "ghost_scsplitfn", SInt)
		st.heap["ghost_scsplitfn"] = app("store", hf, recv.X, id)
		hr := fx.heapTerm(st, "ghost_scsplitrecv", SRef)
		st.heap["ghost_scsplitrecv"] = app("store", hr, recv.X, rv)
		return nil, true
	}
	return nil, false
}

// fnID numbers function keys (ghost identity of an installed function).
func (v *Verifier) fnID(key string) int {
	if v.fnIDs == nil {
		v.fnIDs = map[string]int{}
	}
	if id, ok := v.fnIDs[key]; ok {
		return id
	}
	id := len(v.fnIDs) + 1
	v.fnIDs[key] = id
	return id
}

func (fx *Fx) stdlibMethod(st *State, fn *types.Func, recv Val, args []Val) ([]Val, bool) {
	name := fn.FullName()
	if strings.HasPrefix(name, "(*bufio.Scanner).") {
		return fx.scannerMethod(st, name, recv, args, fn.Type().(*types.Signature))
	}
	boolV := func(t string) []Val { return []Val{{T: types.Typ[types.Bool], S: SBool, X: t}} }
	sig := fn.Type().(*types.Signature)
	res0 := func() types.Type { return sig.Results().At(0).Type() }
	fx.assumed["stdlib model: "+name] = true
	switch name {
	case "(time.Time).IsZero":
		return boolV(app("=", recv.X, "0")), true
	case "(time.Time).After":
		return boolV(app(">", recv.X, args[0].X)), true
	case "(time.Time).Before":
		return boolV(app("<", recv.X, args[0].X)), true
	case "(time.Time).Sub":
		return []Val{{T: res0(), S: SInt, X: app("-", recv.X, args[0].X)}}, true
	case "(time.Time).Add":
		return []Val{{T: res0(), S: SInt, X: app("+", recv.X, args[0].X)}}, true
	case "(time.Time).UnixNano":
		return []Val{{T: res0(), S: SInt, X: recv.X}}, true
	case "(time.Duration).Milliseconds":
		x := recv.X
		return []Val{{T: res0(), S: SInt, X: ite(app(">=", x, "0"), app("div", x, "1000000"), app("-", app("div", app("-", x), "1000000")))}}, true
	case "(net/http.Header).Set", "(net/http.Header).Del":
		m := recv.T.Underlying().(*types.Map)
		if args[0].Lit == nil {
			panic(unsupported("http.Header method with a non-literal key"))
		}
		ck := textproto.CanonicalMIMEHeaderKey(*args[0].Lit)
		key := Val{T: types.Typ[types.String], S: SStr, X: fx.d.strLit(ck), Lit: &ck}
		fx.assumed["net/http.Header.Set/Del canonicalise the key ("+*args[0].Lit+" -> "+ck+") and replace/delete the entry"] = true
		if fn.Name() == "Del" {
			fx.mapDelete(st, recv, m, key)
			return nil, true
		}
		ss := fx.d.sortOf(m.Elem())
		one := app("mk_"+ss, app("store", fx.d.constArray(SStr, "str_empty"), "0", args[1].X), "1", "1", fx.alloc(st, "backing"))
		fx.mapSet(st, recv, m, key, Val{T: m.Elem(), S: ss, X: one}, "Header.Set")
		return nil, true
	case "(*math/rand.Rand).Float64":
		r := fx.d.freshConst("rnd", SReal)
		st.assume(and(app("<=", "0.0", r), app("<", r, "1.0")))
		return []Val{{T: res0(), S: SReal, X: r}}, true
	}
	delete(fx.assumed, "stdlib model: "+name)
	return nil, false
}

// stdlibIface: interface methods with a fixed library meaning (context.Context, error).
func (fx *Fx) stdlibIface(st *State, fn *types.Func, recv Val, args []Val, call *ast.CallExpr) ([]Val, bool) {
	return nil, false
}

// ---------- maps, channels, recover, type assertions: see heapx.go ----------

func (fx *Fx) evalTypeAssert(st *State, x *ast.TypeAssertExpr, commaOk bool) []Val {
	v := fx.eval(st, x.X, false)
	t := fx.pkg.info.Types[x.Type].Type
	tid := fx.v.typeID(t)
	is := app("=", app("dyntype", v.X), fmt.Sprint(tid))
	if _, isIface := t.Underlying().(*types.Interface); isIface {
		p := fx.d.declareFun("implements_"+typeKey(t), []string{SRef}, SBool)
		is = app(p, v.X)
	}
	is = and(not(app("=", v.X, "nil")), is) // a nil interface value holds no type: the assertion fails (as in the type switch)
	if !commaOk {
		fx.oblige(st, "typeassert", exprText(x), is, "")
		st.assume(is)
	}
	out := fx.unbox(st, v, t)
	return []Val{out, {T: types.Typ[types.Bool], S: SBool, X: is}}
}

// unbox gives the concrete value held by an interface value of dynamic type t.
func (fx *Fx) unbox(st *State, v Val, t types.Type) Val {
	s := fx.d.sortOf(t)
	if s == SRef {
		return Val{T: t, S: SRef, X: v.X}
	}
	f := fx.d.declareFun("unbox_"+sanitize(s), []string{SRef}, s)
	return Val{T: t, S: s, X: app(f, v.X)}
}

// box wraps a concrete value into an interface value (a function of the value, so that equal values box equally).
func (fx *Fx) box(st *State, v Val, iface types.Type) Val {
	if v.S == SRef {
		if v.T != nil {
			if _, isIface := v.T.Underlying().(*types.Interface); !isIface && v.X != "nil" {
				st.assume(implies(not(app("=", v.X, "nil")), app("=", app("dyntype", v.X), fmt.Sprint(fx.v.typeID(v.T)))))
			}
		}
		return Val{T: iface, S: SRef, X: v.X, Fn: v.Fn}
	}
	bf := fx.d.declareFun("box_"+sanitize(v.S), []string{v.S}, SRef)
	r := app(bf, v.X)
	if fx.inQuant == 0 {
		st.assume(not(app("=", r, "nil")))
		if v.T != nil {
			st.assume(app("=", app("dyntype", r), fmt.Sprint(fx.v.typeID(v.T))))
		}
		f := fx.d.declareFun("unbox_"+sanitize(v.S), []string{SRef}, v.S)
		st.assume(app("=", app(f, r), v.X))
	}
	return Val{T: iface, S: SRef, X: r}
}
