package main

// Loading of /repo, bookkeeping of functions under contract, and verification of one function.

import (
	"fmt"
	"go/ast"
	"go/constant"
	"go/token"
	"go/types"
	"os"
	"path/filepath"
	"runtime/debug"
	"sort"
	"strings"

	"golang.org/x/tools/go/packages"
)

type Pkg struct {
	name  string
	path  string
	types *types.Package
	info  *types.Info
	files []*ast.File
	fset  *token.FileSet
	dir   string
}

type FuncDeclInfo struct {
	litParams bool // bind the parameters of the function literal being inlined instead of the declaration's
	key       string
	decl      *ast.FuncDecl
	obj       *types.Func
	pkg       *Pkg
}

type Verifier struct {
	fnIDs        map[string]int
	pkgs         []*Pkg
	pkgByTypes   map[*types.Package]*Pkg
	decls        map[string]*FuncDeclInfo
	contracts    *Contracts
	fset         *token.FileSet
	meths        map[string]int
	typeIDs      map[string]int
	colSorts     map[string]string
	colTypes     map[string]types.Type
	loopCache    map[*ast.FuncDecl]map[ast.Node]int
	litCache     map[*ast.FuncDecl]map[*ast.FuncLit]int
	globalInit   map[*types.Var]ast.Expr
	globalPkg    map[*types.Var]*Pkg
	traceMemo    map[string]int
	closedFields map[string]bool
}

func loadRepo(dir string) (*Verifier, error) {
	fset := token.NewFileSet()
	cfg := &packages.Config{Mode: packages.LoadAllSyntax, Dir: dir, BuildFlags: []string{"-tags=verif"}, Fset: fset,
		Env: append(os.Environ(), "GOFLAGS=-mod=mod", "GOPROXY=off", "GOSUMDB=off", "GOTOOLCHAIN=local")}
	pkgs, err := packages.Load(cfg, ".", "./internal/parser")
	if err != nil {
		return nil, err
	}
	v := &Verifier{pkgByTypes: map[*types.Package]*Pkg{}, decls: map[string]*FuncDeclInfo{}, contracts: newContracts(), fset: fset,
		meths: map[string]int{}, typeIDs: map[string]int{}, colSorts: map[string]string{}, colTypes: map[string]types.Type{},
		loopCache: map[*ast.FuncDecl]map[ast.Node]int{}, litCache: map[*ast.FuncDecl]map[*ast.FuncLit]int{},
		globalInit: map[*types.Var]ast.Expr{}, globalPkg: map[*types.Var]*Pkg{}}
	for _, p := range pkgs {
		if len(p.Errors) > 0 {
			return nil, fmt.Errorf("package %s: %v", p.PkgPath, p.Errors[0])
		}
		pk := &Pkg{name: p.Name, path: p.PkgPath, types: p.Types, info: p.TypesInfo, files: p.Syntax, fset: fset}
		if len(p.GoFiles) > 0 {
			pk.dir = filepath.Dir(p.GoFiles[0])
		}
		v.pkgs = append(v.pkgs, pk)
		v.pkgByTypes[p.Types] = pk
	}
	sort.Slice(v.pkgs, func(i, j int) bool { return v.pkgs[i].path < v.pkgs[j].path })
	for _, pk := range v.pkgs {
		for _, f := range pk.files {
			for _, d := range f.Decls {
				switch x := d.(type) {
				case *ast.FuncDecl:
					obj, _ := pk.info.Defs[x.Name].(*types.Func)
					if obj == nil {
						continue
					}
					key := v.funcKey(obj)
					v.decls[key] = &FuncDeclInfo{key: key, decl: x, obj: obj, pkg: pk}
				case *ast.GenDecl:
					if x.Tok == token.VAR {
						for _, sp := range x.Specs {
							vs := sp.(*ast.ValueSpec)
							for i, n := range vs.Names {
								if o, ok := pk.info.Defs[n].(*types.Var); ok && i < len(vs.Values) {
									v.globalInit[o] = vs.Values[i]
									v.globalPkg[o] = pk
								}
							}
						}
					}
				}
			}
		}
		// contract files
		matches, _ := filepath.Glob(filepath.Join(pk.dir, "verif_*.go"))
		sort.Strings(matches)
		for _, m := range matches {
			c := newContracts()
			if err := c.parseFile(m); err != nil {
				return nil, err
			}
			for k, f := range c.Funcs {
				f.Key = pk.name + "." + k
				if _, dup := v.contracts.Funcs[f.Key]; dup {
					return nil, fmt.Errorf("duplicate contract %s", f.Key)
				}
				v.contracts.Funcs[f.Key] = f
			}
			for k, p := range c.Pures {
				v.contracts.Pures[pk.name+"."+k] = p
			}
			for k, ps := range c.Props {
				v.contracts.Props[k] = append(v.contracts.Props[k], ps...)
			}
			for k, g := range c.Guards {
				v.contracts.Guards[pk.name+"."+k] = g
			}
			for k, ci := range c.ChanInvs {
				v.contracts.ChanInvs[pk.name+"."+k] = ci
			}
			v.contracts.Files = append(v.contracts.Files, m)
		}
	}
	// pure functions are visible from every package under their bare name as well
	for k, p := range v.contracts.Pures {
		bare := k[strings.Index(k, ".")+1:]
		for _, pk := range v.pkgs {
			if _, ok := v.contracts.Pures[pk.name+"."+bare]; !ok {
				v.contracts.Pures[pk.name+"."+bare] = p
			}
		}
	}
	v.registerIfaceColumns()
	d := newDecls()
	// function values called by name anywhere: register their trace columns globally
	for _, fdi := range v.decls {
		info := fdi.pkg.info
		ast.Inspect(fdi.decl, func(n ast.Node) bool {
			call, ok := n.(*ast.CallExpr)
			if !ok {
				return true
			}
			if id, ok := ast.Unparen(call.Fun).(*ast.Ident); ok {
				if o, ok := info.Uses[id].(*types.Var); ok {
					if sig, ok := o.Type().Underlying().(*types.Signature); ok {
						func() {
							defer func() { recover() }()
							for j := 0; j < sig.Params().Len(); j++ {
								col := fmt.Sprintf("arg_%s_%d", o.Name(), j)
								if _, dup := v.colTypes[col]; !dup {
									v.colSorts[col] = d.sortOf(sig.Params().At(j).Type())
									v.colTypes[col] = sig.Params().At(j).Type()
								}
							}
							for j := 0; j < sig.Results().Len(); j++ {
								col := fmt.Sprintf("ret_%s_%d", o.Name(), j)
								if _, dup := v.colTypes[col]; !dup {
									v.colSorts[col] = d.sortOf(sig.Results().At(j).Type())
									v.colTypes[col] = sig.Results().At(j).Type()
								}
							}
						}()
					}
				}
			}
			return true
		})
	}
	for key, sp := range v.contracts.Funcs {
		if !sp.Traced || v.decls[key] == nil {
			continue
		}
		name := key[strings.LastIndex(key, ".")+1:]
		sig := v.decls[key].obj.Type().(*types.Signature)
		func() {
			defer func() { recover() }()
			for j := 0; j < sig.Params().Len(); j++ {
				col := fmt.Sprintf("arg_%s_%d", name, j)
				v.colSorts[col] = d.sortOf(sig.Params().At(j).Type())
				v.colTypes[col] = sig.Params().At(j).Type()
			}
		}()
	}
	return v, nil
}

func (v *Verifier) funcKey(fn *types.Func) string {
	fn = fn.Origin()
	pkg := ""
	if fn.Pkg() != nil {
		pkg = fn.Pkg().Name() + "."
	}
	sig := fn.Type().(*types.Signature)
	if r := sig.Recv(); r != nil {
		t := r.Type()
		if p, ok := t.(*types.Pointer); ok {
			t = p.Elem()
		}
		if n, ok := t.(*types.Named); ok {
			return pkg + n.Obj().Name() + "." + fn.Name()
		}
	}
	return pkg + fn.Name()
}

// fieldNeverClosed: no close(<expr>.<field>) occurs anywhere in the loaded packages.
func (v *Verifier) fieldNeverClosed(field string) bool {
	if v.closedFields == nil {
		v.closedFields = map[string]bool{}
		for _, pk := range v.pkgs {
			for _, f := range pk.files {
				ast.Inspect(f, func(n ast.Node) bool {
					if c, ok := n.(*ast.CallExpr); ok && len(c.Args) == 1 {
						if id, ok := c.Fun.(*ast.Ident); ok && id.Name == "close" {
							switch a := ast.Unparen(c.Args[0]).(type) {
							case *ast.SelectorExpr:
								v.closedFields[a.Sel.Name] = true
							case *ast.Ident:
								v.closedFields["@ident"] = true
							}
						}
					}
					return true
				})
			}
		}
	}
	return !v.closedFields[field]
}

// lookupType finds a named type of an imported package.
func (v *Verifier) lookupType(path, name string) types.Type {
	for _, pk := range v.pkgs {
		for _, imp := range pk.types.Imports() {
			if imp.Path() == path {
				if o := imp.Scope().Lookup(name); o != nil {
					return o.Type()
				}
			}
		}
	}
	return nil
}

func (v *Verifier) importedPkg(from *Pkg, name string) *types.Package {
	for _, imp := range from.types.Imports() {
		if imp.Name() == name {
			return imp
		}
	}
	return nil
}

func (v *Verifier) methNum(name string) int {
	if n, ok := v.meths[name]; ok {
		return n
	}
	n := len(v.meths) + 1
	v.meths[name] = n
	return n
}

func (v *Verifier) typeID(t types.Type) int {
	k := strings.ReplaceAll(types.TypeString(types.Unalias(t), nil), "uint8", "byte")
	if n, ok := v.typeIDs[k]; ok {
		return n
	}
	n := len(v.typeIDs) + 1
	v.typeIDs[k] = n
	return n
}

// registerIfaceColumns records the sorts of the trace columns of every interface method declared in the packages.
func (v *Verifier) registerIfaceColumns() {
	d := newDecls()
	reg := func(name string, sig *types.Signature) {
		defer func() { recover() }()
		for j := 0; j < sig.Params().Len(); j++ {
			col := fmt.Sprintf("arg_%s_%d", name, j)
			v.colSorts[col] = d.sortOf(sig.Params().At(j).Type())
			v.colTypes[col] = sig.Params().At(j).Type()
		}
		for j := 0; j < sig.Results().Len(); j++ {
			col := fmt.Sprintf("ret_%s_%d", name, j)
			v.colSorts[col] = d.sortOf(sig.Results().At(j).Type())
			v.colTypes[col] = sig.Results().At(j).Type()
		}
	}
	for _, pk := range v.pkgs {
		sc := pk.types.Scope()
		for _, n := range sc.Names() {
			if tn, ok := sc.Lookup(n).(*types.TypeName); ok {
				if it, ok := tn.Type().Underlying().(*types.Interface); ok {
					for i := 0; i < it.NumMethods(); i++ {
						m := it.Method(i)
						reg(m.Name(), m.Type().(*types.Signature))
					}
				}
				// function-typed struct fields are abstract callees too (ValidReplayer.Now, Client.OnRetry, ...)
				if st, ok := tn.Type().Underlying().(*types.Struct); ok {
					for i := 0; i < st.NumFields(); i++ {
						ft := st.Field(i).Type()
						if sig, ok := ft.Underlying().(*types.Signature); ok {
							reg(st.Field(i).Name(), sig)
						}
						// function-typed fields of library structs held by our structs (http.Request.GetBody, ...)
						if p, ok := ft.(*types.Pointer); ok {
							ft = p.Elem()
						}
						if inner, ok := ft.Underlying().(*types.Struct); ok {
							for j := 0; j < inner.NumFields(); j++ {
								if sig, ok := inner.Field(j).Type().Underlying().(*types.Signature); ok {
									reg(inner.Field(j).Name(), sig)
								}
							}
						}
					}
				}
			}
		}
	}
	v.colSorts["arg_Do_0"], v.colSorts["ret_Do_0"], v.colSorts["ret_Do_1"] = SRef, SRef, SRef
	v.colSorts["arg_TimerReset_0"], v.colSorts["ret_TimerReset_0"], v.colSorts["ret_TimerStop_0"] = SInt, SBool, SBool
	v.colTypes["arg_TimerReset_0"], v.colTypes["ret_TimerReset_0"], v.colTypes["ret_TimerStop_0"] = types.Typ[types.Int64], types.Typ[types.Bool], types.Typ[types.Bool]
	v.colSorts["arg_httpError_0"], v.colSorts["arg_httpError_1"] = SStr, SInt
	v.colTypes["arg_httpError_0"], v.colTypes["arg_httpError_1"] = types.Typ[types.String], types.Typ[types.Int]
	v.colSorts["arg_Write_0"], v.colSorts["ret_Write_0"], v.colSorts["ret_Write_1"] = SStr, SInt, SRef
	v.colTypes["arg_Write_0"] = types.NewSlice(types.Typ[types.Byte])
	v.colTypes["ret_Write_0"] = types.Typ[types.Int]
	v.colTypes["ret_Write_1"] = types.Universe.Lookup("error").Type()
}

func (v *Verifier) traceColSort(fx *Fx, col string) (string, types.Type) {
	switch col {
	case "recv":
		return SRef, nil
	case "do_hasid":
		return SBool, types.Typ[types.Bool]
	case "do_id":
		return SStr, types.Typ[types.String]
	case "do_body":
		return SRef, nil
	case "meth", "iter", "callat", "acc", "rloop", "do_idlen":
		return SInt, types.Typ[types.Int]
	}
	if t := v.colTypes[col]; t != nil {
		return fx.d.sortOf(t), t // (declares the sort in this function's declarations when needed)
	}
	if s, ok := v.colSorts[col]; ok {
		return s, v.colTypes[col]
	}
	panic(unsupported("unknown trace column " + col))
}

// globalLiteral resolves package-level []byte / string variables initialised from constants.
func (v *Verifier) globalLiteral(ob *types.Var) (string, bool) {
	init, ok := v.globalInit[ob]
	if !ok {
		return "", false
	}
	pk := v.globalPkg[ob]
	e := ast.Unparen(init)
	if call, ok := e.(*ast.CallExpr); ok && len(call.Args) == 1 {
		if tv, ok := pk.info.Types[call.Fun]; ok && tv.IsType() {
			if av, ok := pk.info.Types[call.Args[0]]; ok && av.Value != nil && av.Value.Kind() == constant.String {
				return constant.StringVal(av.Value), true
			}
		}
	}
	if cl, ok := e.(*ast.CompositeLit); ok {
		if sl, ok := pk.info.Types[cl].Type.Underlying().(*types.Slice); ok && isByte(sl.Elem()) {
			var bs []byte
			for _, el := range cl.Elts {
				tv := pk.info.Types[el]
				if tv.Value == nil {
					return "", false
				}
				n, _ := constant.Int64Val(tv.Value)
				bs = append(bs, byte(n))
			}
			return string(bs), true
		}
	}
	if tv, ok := pk.info.Types[e]; ok && tv.Value != nil && tv.Value.Kind() == constant.String {
		return constant.StringVal(tv.Value), true
	}
	return "", false
}

// mayTouchTrace: does the function (transitively) call abstract callees (interface methods, function values)?
// Callers must then treat the ghost call trace as changed by the call.
// enclosingFuncKey names the declared function whose body contains pos.
func (v *Verifier) enclosingFuncKey(pkg *Pkg, pos token.Pos) string {
	for key, fd := range v.decls {
		if fd.pkg == pkg && fd.decl.Body != nil && fd.decl.Pos() <= pos && pos < fd.decl.End() {
			return key
		}
	}
	return ""
}

func (v *Verifier) mayTouchTrace(key string) bool {
	if v.traceMemo == nil {
		v.traceMemo = map[string]int{}
	}
	switch v.traceMemo[key] {
	case 1:
		return true
	case 2, 3:
		return false // 3 = in progress (recursion): assume no, the other callee decides
	}
	v.traceMemo[key] = 3
	fd := v.decls[key]
	res := false
	if sp := v.contracts.Funcs[key]; sp != nil && sp.Traced {
		res = true
	}
	if fd != nil && fd.decl.Body != nil {
		info := fd.pkg.info
		ast.Inspect(fd.decl.Body, func(n ast.Node) bool {
			call, ok := n.(*ast.CallExpr)
			if !ok || res {
				return !res
			}
			if tv, ok := info.Types[call.Fun]; ok && tv.IsType() {
				return true
			}
			fun := ast.Unparen(call.Fun)
			if ix, ok := fun.(*ast.IndexExpr); ok {
				fun = ix.X
			}
			var obj types.Object
			switch f := fun.(type) {
			case *ast.Ident:
				obj = info.Uses[f]
			case *ast.SelectorExpr:
				if sel, ok := info.Selections[f]; ok {
					if sel.Kind() == types.FieldVal {
						res = true // function-typed field
						return false
					}
					obj = sel.Obj()
					if _, isTP := sel.Recv().(*types.TypeParam); isTP {
						return true
					}
					if _, isIface := sel.Recv().Underlying().(*types.Interface); isIface {
						res = true
						return false
					}
				} else {
					obj = info.Uses[f.Sel]
				}
			case *ast.FuncLit:
				return true
			default:
				res = true // call of a call result etc.
				return false
			}
			switch o := obj.(type) {
			case *types.Var:
				res = true // function value
				return false
			case *types.Func:
				o = o.Origin()
				if o.Pkg() != nil && v.pkgByTypes[o.Pkg()] != nil {
					if v.mayTouchTrace(v.funcKey(o)) {
						res = true
						return false
					}
				}
			}
			return true
		})
	}
	if res {
		v.traceMemo[key] = 1
	} else {
		v.traceMemo[key] = 2
	}
	return res
}

func (v *Verifier) loopOrdinals(d *ast.FuncDecl) map[ast.Node]int {
	if m, ok := v.loopCache[d]; ok {
		return m
	}
	m := map[ast.Node]int{}
	lits := map[*ast.FuncLit]int{}
	n, l := 0, 0
	ast.Inspect(d, func(x ast.Node) bool {
		switch y := x.(type) {
		case *ast.ForStmt, *ast.RangeStmt:
			m[x] = n
			n++
		case *ast.FuncLit:
			l++
			lits[y] = l
		}
		return true
	})
	v.loopCache[d] = m
	v.litCache[d] = lits
	return m
}

type FuncReport struct {
	Key         string
	Obligations []*Obligation
	Decls       *Decls
	Dropped     []string
	Assumed     []string
	Unsupported string
	Public      bool
	PublicPre   []string
	Inputs      []InputDesc
}

// verifyFunc generates the obligations of one function (or function literal "Key$N").
func (v *Verifier) verifyFunc(key string) (rep *FuncReport) {
	rep = &FuncReport{Key: key}
	spec := v.contracts.Funcs[key]
	base := key
	litN := 0
	if i := strings.Index(key, "$"); i >= 0 {
		base = key[:i]
		fmt.Sscanf(key[i+1:], "%d", &litN)
	}
	fd := v.decls[base]
	if fd == nil {
		rep.Unsupported = "function " + base + " not found in the source (renamed or removed?)"
		return
	}
	fx := &Fx{v: v, pkg: fd.pkg, d: newDecls(), spec: spec, key: key, decl: fd.decl, callOrd: map[string]int{},
		heapSort: map[string]string{}, dropped: map[string]bool{}, assumed: map[string]bool{}, oblSeen: map[string]int{}}
	fx.loopOrd = v.loopOrdinals(fd.decl)
	fx.litOrd = v.litCache[fd.decl]
	fx.rootSpec = spec
	rep.Decls = fx.d
	defer func() {
		if r := recover(); r != nil {
			if os.Getenv("GOVC_DEBUG") != "" {
				fmt.Fprintf(os.Stderr, "%v\n%s\n", r, debug.Stack())
			}
			if u, ok := r.(unsupportedErr); ok {
				rep.Unsupported = u.msg
			} else if e, ok := r.(error); ok {
				if u, ok := e.(unsupportedErr); ok {
					rep.Unsupported = u.msg
				} else {
					rep.Unsupported = fmt.Sprintf("engine panic: %v\n%s", r, debug.Stack())
				}
			} else {
				rep.Unsupported = fmt.Sprintf("engine panic: %v\n%s", r, debug.Stack())
			}
		}
		rep.Obligations = fx.obls
		rep.Dropped = sortedKeys(fx.dropped)
		rep.Assumed = sortedKeys(fx.assumed)
	}()
	st := &State{env: map[types.Object]Val{}, names: map[string]types.Object{}, bound: map[string]Val{}, heap: map[string]string{},
		trCols: map[string]string{}, ghost: map[string]Val{}}
	info := fd.pkg.info
	isRecv := false
	declareParam := func(n *ast.Ident) {
		o := info.Defs[n]
		if o == nil || n.Name == "_" {
			return
		}
		val := fx.freshVal(st, "p_"+n.Name, o.Type())
		if litN == 0 {
			rep.Inputs = append(rep.Inputs, InputDesc{Name: n.Name, T: o.Type(), Term: val.X, Recv: isRecv})
		}
		if val.S == SRef {
			fx.older(st, val.X)
		}
		fx.declare(st, o, val)
	}
	d := fd.decl
	if d.Recv != nil {
		isRecv = true
		for _, f := range d.Recv.List {
			for _, n := range f.Names {
				declareParam(n)
			}
		}
		isRecv = false
	}
	for _, f := range d.Type.Params.List {
		for _, n := range f.Names {
			declareParam(n)
		}
	}
	var body *ast.BlockStmt
	var ftype *ast.FuncType
	if litN == 0 {
		body, ftype = d.Body, d.Type
	} else {
		var lit *ast.FuncLit
		for l, n := range fx.litOrd {
			if n == litN {
				lit = l
			}
		}
		if lit == nil {
			rep.Unsupported = fmt.Sprintf("function literal %d not found in %s", litN, base)
			return
		}
		fx.lit = lit
		body, ftype = lit.Body, lit.Type
		// free variables of the literal defined in the enclosing function
		ast.Inspect(lit.Body, func(n ast.Node) bool {
			if id, ok := n.(*ast.Ident); ok {
				if o, ok := info.Uses[id].(*types.Var); ok && !o.IsField() && o.Parent() != o.Pkg().Scope() {
					if _, have := st.env[o]; !have && (o.Pos() < lit.Pos() || o.Pos() > lit.End()) {
						val := fx.freshVal(st, "c_"+o.Name(), o.Type())
						if val.S == SRef {
							fx.older(st, val.X)
						}
						fx.declare(st, o, val)
					}
				}
			}
			return true
		})
		for _, f := range lit.Type.Params.List {
			for _, n := range f.Names {
				declareParam(n)
			}
		}
	}
	if body == nil {
		rep.Unsupported = "no body"
		return
	}
	// the closure returned by an iterator function is verified against the canonical loop of the iter clauses
	if litN > 0 {
		if parent := v.contracts.Funcs[base]; parent != nil && parent.Iter != nil {
			if spec == nil {
				spec = &FuncSpec{Key: key, Loops: map[int]*LoopSpec{}, Sites: map[string]*LoopSpec{}}
			} else {
				cp := *spec
				spec = &cp
			}
			yname := "yield"
			if len(ftype.Params.List) > 0 && len(ftype.Params.List[0].Names) > 0 {
				yname = ftype.Params.List[0].Names[0].Name
			}
			extra, err := v.iterEnsures(parent, yname)
			if err != nil {
				rep.Unsupported = err.Error()
				return
			}
			spec.Ensures = append(append([]Clause(nil), spec.Ensures...), extra...)
			spec.Requires = append(append([]Clause(nil), parent.Requires...), spec.Requires...)
			fx.spec = spec
		}
	}
	// abstract function-typed parameters: register their trace columns
	for o := range st.env {
		if sig, ok := o.Type().Underlying().(*types.Signature); ok {
			for j := 0; j < sig.Params().Len(); j++ {
				col := fmt.Sprintf("arg_%s_%d", o.Name(), j)
				v.colSorts[col] = fx.d.sortOf(sig.Params().At(j).Type())
				v.colTypes[col] = sig.Params().At(j).Type()
			}
			for j := 0; j < sig.Results().Len(); j++ {
				col := fmt.Sprintf("ret_%s_%d", o.Name(), j)
				v.colSorts[col] = fx.d.sortOf(sig.Results().At(j).Type())
				v.colTypes[col] = sig.Results().At(j).Type()
			}
		}
	}
	// function values called by name anywhere in the declaration: register their trace columns
	ast.Inspect(fd.decl, func(n ast.Node) bool {
		call, ok := n.(*ast.CallExpr)
		if !ok {
			return true
		}
		if id, ok := ast.Unparen(call.Fun).(*ast.Ident); ok {
			if o, ok := info.Uses[id].(*types.Var); ok {
				if sig, ok := o.Type().Underlying().(*types.Signature); ok {
					func() {
						defer func() { recover() }()
						for j := 0; j < sig.Params().Len(); j++ {
							col := fmt.Sprintf("arg_%s_%d", o.Name(), j)
							v.colSorts[col] = fx.d.sortOf(sig.Params().At(j).Type())
							v.colTypes[col] = sig.Params().At(j).Type()
						}
						for j := 0; j < sig.Results().Len(); j++ {
							col := fmt.Sprintf("ret_%s_%d", o.Name(), j)
							v.colSorts[col] = fx.d.sortOf(sig.Results().At(j).Type())
							v.colTypes[col] = sig.Results().At(j).Type()
						}
					}()
				}
			}
		}
		return true
	})
	// results
	if ftype.Results != nil {
		for _, f := range ftype.Results.List {
			if len(f.Names) == 0 {
				t := info.Types[f.Type].Type
				fx.results = append(fx.results, types.NewVar(0, fd.pkg.types, "", t))
			}
			for _, n := range f.Names {
				if o := info.Defs[n]; o != nil {
					fx.results = append(fx.results, o)
					fx.namedResults = true
					fx.declare(st, o, Val{T: o.Type(), S: fx.d.sortOf(o.Type()), X: fx.d.zeroOf(o.Type())})
				}
			}
		}
	}
	st.trN = fx.d.declareConst("T_n@0", SInt)
	st.assume(app("<=", "0", st.trN))
	if spec != nil {
		for _, g := range spec.Ghost {
			st.ghost[g.Name] = Val{S: g.Sort, X: fx.d.declareConst("ghost_"+g.Name, g.Sort)}
		}
		for _, a := range spec.Assumes {
			st.assume(fx.specEval(st, fd.pkg, nil, nil, a.Expr))
			fx.assumed["assume "+a.Text] = true
		}
		for _, r := range spec.Requires {
			st.assume(fx.specEval(st, fd.pkg, nil, nil, r.Expr))
		}
		if ast.IsExported(d.Name.Name) && litN == 0 {
			for _, r := range spec.Requires {
				rep.PublicPre = append(rep.PublicPre, key+": requires "+r.Text)
			}
		}
	}
	// vacuity: the entry assumptions must be satisfiable
	fx.obls = append(fx.obls, &Obligation{Name: key + "/vacuity:pre", Kind: "vacuity", Assume: append([]string(nil), st.pc...), Goal: "false", Func: key, Expect: "sat"})
	entry := st.clone()
	st.old = entry
	outs0 := fx.execBlock(st, body.List)
	// deferred calls run at every exit, also when the function panics
	var outs []Outcome
	for _, o := range outs0 {
		if o.kind != kReturn && o.kind != kNormal && o.kind != kPanic {
			panic(unsupported("break/continue at function level"))
		}
		for _, ds := range fx.runDefers(o.st, 0) {
			k := o.kind
			if k == kPanic {
				if ds.panicVal != "" {
					fx.oblige(ds, "panic", "escapes", "false", "a panic leaves the function")
					continue
				}
				k = kReturn // recovered: returns the named results
				ds.retVals = nil
			} else if len(fx.results) > 0 && fx.namedResults {
				ds.retVals = nil // named results may have been changed by deferred calls
			}
			outs = append(outs, Outcome{st: ds, kind: k})
		}
	}
	var canary *Obligation
	for _, o := range outs {
		fx.paths++
		fs := o.st
		if o.kind == kNormal && len(fx.results) > 0 && len(fs.retVals) == 0 {
			// fell off the end with named results
			for _, ro := range fx.results {
				fs.retVals = append(fs.retVals, fs.env[ro])
			}
		}
		if o.kind == kReturn && len(fs.retVals) == 0 {
			for _, ro := range fx.results {
				fs.retVals = append(fs.retVals, fs.env[ro])
			}
		}
		// parameters denote their entry values in postconditions
		for ob, val := range entry.env {
			isRes := false
			for _, ro := range fx.results {
				if ro == ob {
					isRes = true
				}
			}
			if !isRes {
				if cur, ok := fs.env[ob]; ok && cur.Root == "@local" {
					continue
				}
				fs.env[ob] = val
			}
		}
		for i, rv := range fs.retVals {
			fs.bound[defaultResultName(i)] = rv
		}
		if spec != nil {
			for _, e := range spec.Ensures {
				g := fx.specEval(fs, fd.pkg, nil, nil, e.Expr)
				fx.oblige(fs, "post", e.Label, g, e.Text)
			}
			fx.frameObligations(fs, entry, spec, fd.pkg)
		}
		// canary: 'false' must not be provable at the exits (some exit is reachable)
		if canary == nil {
			canary = &Obligation{Name: key + "/vacuity:exit_reachable", Kind: "vacuity", Assume: append([]string(nil), fs.pc...), Goal: "false", Func: key, Expect: "not-unsat"}
		} else if len(canary.Cases) < 12 {
			canary.Cases = append(canary.Cases, OblCase{Assume: append([]string(nil), fs.pc...), Goal: "false"})
		}
	}
	if canary != nil {
		fx.obls = append(fx.obls, canary)
	}
	return
}

// frameObligations: every heap cell not covered by the modifies clause is unchanged.
func (fx *Fx) frameObligations(fs, entry *State, spec *FuncSpec, pkg *Pkg) {
	// expected heap = entry heap with the modifies locations overwritten by their final values
	exp := entry.clone()
	exp.pc = fs.pc
	for _, m := range spec.Modifies {
		func() {
			defer func() {
				if r := recover(); r != nil {
					panic(r)
				}
			}()
			// location computed in the entry state
			saved := fx.pkg
			fx.pkg = pkg
			fx.inSpec++
			ent := entry.clone()
			ent.old = entry
			ent.trN, ent.trCols = fs.trN, fs.trCols // the trace is append-only: locations named through it use the final trace
			p := fx.evalPlace(ent, m, true)
			fx.pkg = saved
			fx.inSpec--
			if p.loc == nil {
				panic(unsupported("modifies clause is not a location: " + exprText(m)))
			}
			// final value at that location
			fin := fs.clone()
			fx.inSpec++
			fv := fx.load(fin, p.loc)
			fx.inSpec--
			fx.store(exp, p.loc, fv)
		}()
	}
	for _, k := range sortedKeys(fs.heap) {
		final := fs.heap[k]
		var want string
		if w, ok := exp.heap[k]; ok {
			want = w
		} else if w, ok := entry.heap[k]; ok {
			want = w
		} else {
			want = fx.d.declareConst("H_"+k+"@0", "(Array Ref "+fx.heapSort[k]+")")
		}
		if final == want {
			continue
		}
		if strings.HasPrefix(k, "local_") || strings.HasPrefix(k, "ghost_") {
			continue
		}
		// cells allocated during the call are not part of the caller-visible frame
		fx.d.declareFun("birth", []string{SRef}, SInt)
		g := fmt.Sprintf("(forall ((r Ref)) (! (=> (<= (%s r) %d) (= (select %s r) (select %s r))) :pattern ((select %s r))))", sym("birth"), entry.births, final, want, final)
		fx.oblige(fs, "frame", k, g, "cells of "+k+" outside the modifies clause are unchanged")
	}
}
