package main

// Calls: conversions, builtins, standard-library models, contracts, inlining, abstract callees.

import (
	"fmt"
	"go/ast"
	"go/token"
	"go/types"
	"math/big"
	"strconv"
	"strings"
)

func (fx *Fx) evalCall(st *State, call *ast.CallExpr, spec bool) []Val {
	if spec {
		if vs, ok := fx.specBuiltin(st, call); ok {
			return vs
		}
		return fx.specCall(st, call)
	}
	info := fx.pkg.info
	// conversion
	if tv, ok := info.Types[call.Fun]; ok && tv.IsType() {
		return []Val{fx.convert(st, fx.eval(st, call.Args[0], spec), tv.Type, exprText(call))}
	}
	fun := ast.Unparen(call.Fun)
	// strip generic instantiation
	if ix, ok := fun.(*ast.IndexExpr); ok {
		if tv, ok := info.Types[ix.X]; ok {
			if _, isSig := tv.Type.(*types.Signature); isSig {
				fun = ix.X
			}
		}
	}
	var obj types.Object
	var recvExpr ast.Expr
	switch f := fun.(type) {
	case *ast.Ident:
		obj = info.Uses[f]
	case *ast.SelectorExpr:
		if sel, ok := info.Selections[f]; ok {
			if sel.Kind() == types.MethodVal {
				obj = sel.Obj()
				recvExpr = f.X
			}
		} else {
			obj = info.Uses[f.Sel]
		}
	}
	switch o := obj.(type) {
	case *types.Builtin:
		return fx.builtinCall(st, o.Name(), call, spec)
	case *types.Func:
		return fx.staticCall(st, o, recvExpr, call, spec)
	}
	// call of a function value
	fv := fx.eval(st, call.Fun, spec)
	var args []Val
	for _, a := range call.Args {
		args = append(args, fx.eval(st, a, spec))
	}
	if fv.Fn != nil {
		return fx.callClosure(st, fv.Fn, args, call)
	}
	// calling a nil function value panics
	if !spec && fx.inSpec == 0 && fv.S == SRef {
		fx.oblige(st, "nil", "call("+exprText(call.Fun)+")", not(app("=", fv.X, "nil")), "call of a nil function value")
		st.assume(not(app("=", fv.X, "nil")))
	}
	sig, _ := fx.typeOf(call.Fun).Underlying().(*types.Signature)
	return fx.abstractCall(st, fv.X, fx.funcValueName(call.Fun), args, sig, call)
}

func (fx *Fx) funcValueName(e ast.Expr) string {
	switch x := ast.Unparen(e).(type) {
	case *ast.Ident:
		return x.Name
	case *ast.SelectorExpr:
		return x.Sel.Name
	}
	return "fn"
}

func basicKind(t types.Type) types.BasicKind {
	if t == nil {
		return types.Invalid
	}
	if b, ok := t.Underlying().(*types.Basic); ok {
		return b.Kind()
	}
	return types.Invalid
}

func intBits(k types.BasicKind) int {
	switch k {
	case types.Int8, types.Uint8:
		return 8
	case types.Int16, types.Uint16:
		return 16
	case types.Int32, types.Uint32:
		return 32
	case types.Int, types.Int64, types.Uint, types.Uint64, types.Uintptr:
		return 64
	}
	return 0
}

func isUnsignedKind(k types.BasicKind) bool {
	switch k {
	case types.Uint8, types.Uint16, types.Uint32, types.Uint, types.Uint64, types.Uintptr:
		return true
	}
	return false
}

func (fx *Fx) convert(st *State, v Val, to types.Type, text string) Val {
	ts := fx.d.sortOf(to)
	switch {
	case v.S == ts:
		out := Val{T: to, S: ts, X: v.X, Lit: v.Lit, Fn: v.Fn}
		if ts == SInt {
			if tb, ok := to.Underlying().(*types.Basic); ok {
				if tb.Kind() == types.Uint8 {
					out.X = app("mod", v.X, "256")
				} else if isUnsigned64(to) && !isUnsigned64(v.T) {
					out.X = app("mod", v.X, "18446744073709551616")
				} else if (tb.Kind() == types.Int || tb.Kind() == types.Int64) && isUnsigned64(v.T) {
					// uint64 -> int/int64: values from 2^63 on wrap around to negative numbers
					out.X = ite(app(">=", v.X, "9223372036854775808"), app("-", v.X, "18446744073709551616"), v.X)
				} else if bits := intBits(tb.Kind()); bits > 0 && bits < 64 && intBits(basicKind(v.T)) != bits {
					// narrowing (or sign-changing) conversion to a small integer type: wraps around
					m := new(big.Int).Lsh(big.NewInt(1), uint(bits))
					if isUnsignedKind(tb.Kind()) {
						out.X = app("mod", v.X, m.String())
					} else {
						h := new(big.Int).Rsh(m, 1)
						out.X = app("-", app("mod", app("+", v.X, h.String()), m.String()), h.String())
					}
				}
			}
		}
		return out
	case v.S == SInt && ts == SReal:
		return Val{T: to, S: SReal, X: app("to_real", v.X)}
	case v.S == SReal && ts == SInt:
		// Go truncates toward zero
		fx.assumed["float64 is modelled as a real number (no rounding, no overflow on conversion to integers)"] = true
		return Val{T: to, S: SInt, X: ite(app(">=", v.X, "0.0"), app("to_int", v.X), app("-", app("to_int", app("-", v.X))))}
	}
	panic(unsupported(fmt.Sprintf("conversion %s: %s to %s", text, v.S, ts)))
}

func (fx *Fx) builtinCall(st *State, name string, call *ast.CallExpr, spec bool) []Val {
	intV := func(x string) []Val { return []Val{{T: types.Typ[types.Int], S: SInt, X: x}} }
	switch name {
	case "len":
		v := fx.eval(st, call.Args[0], spec)
		if v.T != nil {
			if a, ok := v.T.Underlying().(*types.Array); ok {
				return intV(fmt.Sprint(a.Len()))
			}
			if m, ok := v.T.Underlying().(*types.Map); ok {
				return intV(fx.mapLen(st, v, m))
			}
		}
		return intV(fx.seqLen(v))
	case "min", "max":
		a := fx.eval(st, call.Args[0], spec)
		for _, e := range call.Args[1:] {
			b := fx.eval(st, e, spec)
			if name == "min" {
				a = Val{T: a.T, S: a.S, X: ite(app("<=", a.X, b.X), a.X, b.X)}
			} else {
				a = Val{T: a.T, S: a.S, X: ite(app(">=", a.X, b.X), a.X, b.X)}
			}
		}
		return []Val{a}
	case "new":
		t := fx.pkg.info.Types[call.Args[0]].Type
		r := fx.alloc(st, typeKey(t))
		fx.store(st, &Loc{kind: locCell, key: cellKey(t), ref: r, T: t}, Val{T: t, S: fx.d.sortOf(t), X: fx.d.zeroOf(t)})
		return []Val{{T: types.NewPointer(t), S: SRef, X: r}}
	case "make":
		t := fx.pkg.info.Types[call.Args[0]].Type
		switch u := t.Underlying().(type) {
		case *types.Slice:
			n := fx.eval(st, call.Args[1], spec)
			if fx.inSpec == 0 {
				fx.oblige(st, "bounds", exprText(call), app("<=", "0", n.X), "")
			}
			if isByte(u.Elem()) {
				r := fx.d.freshConst("make", SStr)
				st.assume(app("=", app("slen", r), n.X))
				st.assume(fmt.Sprintf("(forall ((i Int)) (! (=> (and (<= 0 i) (< i %s)) (= (sat %s i) 0)) :pattern ((sat %s i))))", n.X, r, r))
				return []Val{{T: t, S: SStr, X: r}}
			}
			ss := fx.d.sortOf(t)
			arr := fx.d.constArray(fx.d.sortOf(u.Elem()), fx.d.zeroOf(u.Elem()))
			return []Val{{T: t, S: ss, X: app("mk_"+ss, arr, n.X, n.X, fx.alloc(st, "backing"))}}
		case *types.Map:
			return []Val{fx.newMap(st, t, u)}
		case *types.Chan:
			capT := "0"
			if len(call.Args) > 1 {
				capT = fx.eval(st, call.Args[1], spec).X
			}
			return []Val{fx.newChan(st, t, capT)}
		}
	case "append":
		return []Val{fx.appendCall(st, call, spec)}
	case "copy":
		return fx.copyCall(st, call, spec)
	case "clear":
		fx.clearCall(st, call, spec)
		return nil
	case "delete":
		mv := fx.eval(st, call.Args[0], spec)
		k := fx.eval(st, call.Args[1], spec)
		fx.mapDelete(st, mv, mv.T.Underlying().(*types.Map), k)
		return nil
	case "close":
		fx.chanClose(st, fx.eval(st, call.Args[0], spec), exprText(call.Args[0]))
		return nil
	case "panic":
		fx.oblige(st, "panic", exprText(call), "false", "explicit panic reachable")
		st.assume("false")
		return nil
	case "recover":
		return []Val{fx.recoverCall(st)}
	case "cap":
		v := fx.eval(st, call.Args[0], spec)
		if strings.HasPrefix(v.S, "Seq_") {
			return intV(app("cap_"+v.S, v.X))
		}
		return intV(fx.seqLen(v))
	case "Slice", "String":
		// unsafe.Slice(unsafe.StringData(s), len(s)) and unsafe.String(unsafe.SliceData(b), len(b)): value conversions
		if inner, ok := ast.Unparen(call.Args[0]).(*ast.CallExpr); ok && len(inner.Args) == 1 {
			v := fx.eval(st, inner.Args[0], spec)
			n := fx.eval(st, call.Args[1], spec)
			if fx.inSpec == 0 {
				fx.oblige(st, "bounds", exprText(call), app("=", n.X, fx.seqLen(v)), "unsafe conversion must cover exactly the source")
			}
			if fx.inSpec == 0 {
				// the view aliases the source buffer, which the value model of strings cannot see: every such view must be
				// declared transient in the contract of the function that takes it (allowunsafe <reason>)
				key := fx.v.enclosingFuncKey(fx.pkg, call.Pos())
				sp := fx.v.contracts.Funcs[key]
				if sp == nil || sp.AllowUnsafe == "" {
					fx.oblige(st, "unsafe", exprText(call), "false", "an unsafe string/slice view shares memory with its source; the contract of "+key+" does not declare it transient (allowunsafe <reason>), so what is built from it may change under the caller's feet")
				} else {
					fx.assumed["unsafe view in "+key+" is transient: "+sp.AllowUnsafe] = true
				}
			}
			fx.note("unsafe.String/unsafe.Slice over StringData/SliceData are read as value conversions; the aliasing with the source buffer is not modelled, so every such view needs an allowunsafe declaration (why it is transient) in the contract of the function that takes it")
			return []Val{{T: fx.typeOf(call), S: SStr, X: v.X, Lit: v.Lit}}
		}
	}
	panic(unsupported("builtin " + name))
}

func (fx *Fx) appendCall(st *State, call *ast.CallExpr, spec bool) Val {
	s := fx.eval(st, call.Args[0], spec)
	if s.S == SStr {
		r := s
		for _, a := range call.Args[1:] {
			v := fx.eval(st, a, spec)
			if call.Ellipsis.IsValid() {
				r = Val{T: s.T, S: SStr, X: app("sconcat", r.X, v.X)}
			} else {
				panic(unsupported("append of single bytes"))
			}
		}
		return r
	}
	if call.Ellipsis.IsValid() {
		panic(unsupported("append with ... on generic slice"))
	}
	arr := app("arr_"+s.S, s.X)
	ln := fx.seqLen(s)
	if parts, ok := fx.ctorArgsOf(s.X, "mk_"+s.S); ok && len(parts) == 4 {
		arr = parts[0]
	}
	for i, a := range call.Args[1:] {
		v := fx.eval(st, a, spec)
		arr = app("store", arr, app("+", ln, fmt.Sprint(i)), v.X)
	}
	fx.assumed["slices are value sequences with ghost capacity and backing identity: writes through one slice are not seen through another slice of the same backing array"] = true
	// in place when the capacity suffices (same backing array), otherwise a fresh, larger backing array
	nlen := app("+", ln, fmt.Sprint(len(call.Args)-1))
	oldCap, oldBk := app("cap_"+s.S, s.X), app("bk_"+s.S, s.X)
	inPlace := app("<=", nlen, oldCap)
	ncap := fx.d.freshConst("newcap", SInt)
	st.assume(app("<=", nlen, ncap))
	nbk := fx.alloc(st, "backing")
	return Val{T: s.T, S: s.S, X: app("mk_"+s.S, arr, nlen, ite(inPlace, oldCap, ncap), ite(inPlace, oldBk, nbk))}
}

// copyCall models copy(dst, src) for generic sequences; dst must be an addressable expression or a slice of one.
func (fx *Fx) copyCall(st *State, call *ast.CallExpr, spec bool) []Val {
	src := fx.eval(st, call.Args[1], spec)
	// destination: X or X[lo:]
	dstExpr := ast.Unparen(call.Args[0])
	lo := "0"
	if sl, ok := dstExpr.(*ast.SliceExpr); ok && sl.High == nil {
		if sl.Low != nil {
			lo = fx.eval(st, sl.Low, spec).X
		}
		dstExpr = sl.X
	}
	dp := fx.evalPlace(st, dstExpr, spec)
	if dp.loc == nil {
		panic(unsupported("copy into non-addressable destination"))
	}
	dst := fx.load(st, dp.loc)
	if dst.S == SStr || !strings.HasPrefix(dst.S, "Seq_") {
		panic(unsupported("copy into " + dst.S))
	}
	dlen := fx.seqLen(dst)
	slen := fx.seqLen(src)
	if fx.inSpec == 0 {
		g := and(app("<=", "0", lo), app("<=", lo, dlen))
		fx.oblige(st, "bounds", exprText(call.Args[0]), g, "")
		st.assume(g)
	}
	avail := app("-", dlen, lo)
	n := ite(app("<=", slen, avail), slen, avail)
	nv := fx.d.freshConst("copied", SInt)
	st.assume(app("=", nv, n))
	r := fx.d.freshConst("copydst", dst.S)
	st.assume(app("=", app("len_"+dst.S, r), dlen))
	st.assume(app("=", app("cap_"+dst.S, r), app("cap_"+dst.S, dst.X)))
	st.assume(app("=", app("bk_"+dst.S, r), app("bk_"+dst.S, dst.X)))
	st.assume(fmt.Sprintf("(forall ((i Int)) (! (= (select (arr_%s %s) i) (ite (and (<= %s i) (< i (+ %s %s))) (select (arr_%s %s) (- i %s)) (select (arr_%s %s) i))) :pattern ((select (arr_%s %s) i))))",
		dst.S, r, lo, lo, nv, src.S, src.X, lo, dst.S, dst.X, dst.S, r))
	fx.store(st, dp.loc, Val{T: dst.T, S: dst.S, X: r})
	return []Val{{T: types.Typ[types.Int], S: SInt, X: nv}}
}

// clear(X), clear(X[lo:]), clear(X[:hi]), clear(X[lo:hi]) on a slice held in an addressable place: the elements of the
// window become the zero value, length, capacity and backing array stay. (clear of a map is not modelled.)
func (fx *Fx) clearCall(st *State, call *ast.CallExpr, spec bool) {
	dstExpr := ast.Unparen(call.Args[0])
	if _, isMap := fx.typeOf(dstExpr).Underlying().(*types.Map); isMap {
		panic(unsupported("builtin clear of a map"))
	}
	var loE, hiE ast.Expr
	if sl, ok := dstExpr.(*ast.SliceExpr); ok && !sl.Slice3 {
		loE, hiE = sl.Low, sl.High
		dstExpr = sl.X
	}
	dp := fx.evalPlace(st, dstExpr, spec)
	if dp.loc == nil {
		panic(unsupported("clear of a non-addressable slice"))
	}
	dst := fx.load(st, dp.loc)
	if dst.S == SStr || !strings.HasPrefix(dst.S, "Seq_") {
		panic(unsupported("clear of " + dst.S))
	}
	sl, ok := dst.T.Underlying().(*types.Slice)
	if !ok {
		panic(unsupported("clear of " + dst.T.String()))
	}
	dlen := fx.seqLen(dst)
	lo, hi := "0", dlen
	if loE != nil {
		lo = fx.eval(st, loE, spec).X
	}
	if hiE != nil {
		hi = fx.eval(st, hiE, spec).X
	}
	if fx.inSpec == 0 && (loE != nil || hiE != nil) {
		g := and(app("<=", "0", lo), app("<=", lo, hi), app("<=", hi, app("cap_"+dst.S, dst.X)))
		fx.oblige(st, "bounds", exprText(call.Args[0]), g, "")
		st.assume(g)
	}
	r := fx.d.freshConst("cleared", dst.S)
	st.assume(app("=", app("len_"+dst.S, r), dlen))
	st.assume(app("=", app("cap_"+dst.S, r), app("cap_"+dst.S, dst.X)))
	st.assume(app("=", app("bk_"+dst.S, r), app("bk_"+dst.S, dst.X)))
	st.assume(fmt.Sprintf("(forall ((i Int)) (! (= (select (arr_%s %s) i) (ite (and (<= %s i) (< i %s)) %s (select (arr_%s %s) i))) :pattern ((select (arr_%s %s) i))))",
		dst.S, r, lo, hi, fx.d.zeroOf(sl.Elem()), dst.S, dst.X, dst.S, r))
	fx.store(st, dp.loc, Val{T: dst.T, S: dst.S, X: r})
}

// ---------- static calls ----------

func (fx *Fx) staticCall(st *State, fn *types.Func, recvExpr ast.Expr, call *ast.CallExpr, spec bool) []Val {
	fn = fn.Origin()
	sig := fn.Type().(*types.Signature)
	// method of a type parameter's constraint: an uninterpreted function of the receiver
	if recvExpr != nil {
		if tp, ok := fx.typeOf(recvExpr).(*types.TypeParam); ok && tp != nil {
			recv := fx.eval(st, recvExpr, spec)
			return []Val{fx.typeParamMethod(recv, tp, fn)}
		}
	}
	// interface method: abstract
	if recvExpr != nil && sig.Recv() != nil {
		if _, isIface := sig.Recv().Type().Underlying().(*types.Interface); isIface {
			recv := fx.eval(st, recvExpr, spec)
			var args []Val
			for _, a := range call.Args {
				args = append(args, fx.eval(st, a, spec))
			}
			if vs, ok := fx.stdlibIface(st, fn, recv, args, call); ok {
				return vs
			}
			return fx.abstractCall(st, recv.X, fn.Name(), args, sig, call)
		}
	}
	if fn.Pkg() == nil || fx.v.pkgByTypes[fn.Pkg()] == nil {
		return fx.stdlibCall(st, fn, recvExpr, call, spec)
	}
	key := fx.v.funcKey(fn)
	var recv *Val
	if recvExpr != nil {
		rp := fx.evalPlace(st, recvExpr, spec)
		rp = fx.embeddedReceiver(st, rp, call, spec)
		rv := fx.receiverValue(st, rp, sig, exprText(recvExpr), spec)
		recv = &rv
	}
	var args []Val
	if len(call.Args) == 1 && sig.Params().Len() > 1 {
		if inner, ok := ast.Unparen(call.Args[0]).(*ast.CallExpr); ok {
			args = fx.evalCall(st, inner, spec)
		}
	}
	if args == nil {
		for _, a := range call.Args {
			args = append(args, fx.eval(st, a, spec))
		}
	}
	if sig.Variadic() && !call.Ellipsis.IsValid() {
		args = fx.packVariadic(st, sig, args)
	}
	return fx.callKnown(st, key, recv, args, call)
}

func (fx *Fx) packVariadic(st *State, sig *types.Signature, args []Val) []Val {
	n := sig.Params().Len() - 1
	vt := sig.Params().At(n).Type()
	sl := vt.(*types.Slice)
	ss := fx.d.sortOf(vt)
	if ss == SStr {
		panic(unsupported("variadic bytes"))
	}
	arr := fx.d.constArray(fx.d.sortOf(sl.Elem()), fx.d.zeroOf(sl.Elem()))
	for i, a := range args[n:] {
		arr = app("store", arr, fmt.Sprint(i), a.X)
	}
	packed := Val{T: vt, S: ss, X: app("mk_"+ss, arr, fmt.Sprint(len(args)-n), fmt.Sprint(len(args)-n), fx.alloc(st, "backing"))}
	return append(append([]Val(nil), args[:n]...), packed)
}

func (fx *Fx) typeParamMethod(recv Val, tp *types.TypeParam, fn *types.Func) Val {
	sig := fn.Type().(*types.Signature)
	if sig.Params().Len() != 0 || sig.Results().Len() != 1 {
		panic(unsupported("type-parameter method with arguments: " + fn.Name()))
	}
	rt := sig.Results().At(0).Type()
	rs := fx.d.sortOf(rt)
	f := fx.d.declareFun("tpm_"+sanitize(tp.Obj().Name())+"_"+fn.Name(), []string{recv.S}, rs)
	return Val{T: rt, S: rs, X: app(f, recv.X)}
}

// embeddedReceiver follows the embedded-field path of a promoted method call.
func (fx *Fx) embeddedReceiver(st *State, rp Place, call *ast.CallExpr, spec bool) Place {
	se, ok := ast.Unparen(call.Fun).(*ast.SelectorExpr)
	if !ok {
		return rp
	}
	sel, ok := fx.pkg.info.Selections[se]
	if !ok || len(sel.Index()) <= 1 {
		return rp
	}
	return fx.walkFields(st, rp, sel.Recv(), sel.Index()[:len(sel.Index())-1], exprText(se.X), spec)
}

// receiverValue adapts the receiver expression to the method's receiver type (auto address / deref).
func (fx *Fx) receiverValue(st *State, rp Place, sig *types.Signature, what string, spec bool) Val {
	var have types.Type
	if rp.loc != nil {
		have = rp.loc.T
	} else {
		have = rp.val.T
	}
	want := sig.Recv().Type()
	_, wantPtr := want.Underlying().(*types.Pointer)
	_, havePtr := have.Underlying().(*types.Pointer)
	switch {
	case wantPtr && !havePtr:
		if rp.loc == nil {
			panic(unsupported("pointer receiver on non-addressable value"))
		}
		if rp.loc.kind == locVar {
			return fx.promoteLocal(st, rp.loc)
		}
		return fx.addrOf(st, rp.loc)
	case !wantPtr && havePtr:
		p := fx.get(st, rp)
		fx.nonNil(st, p, what, spec)
		return fx.load(st, fx.derefLoc(st, p))
	}
	return fx.get(st, rp)
}

func (fx *Fx) callKnown(st *State, key string, recv *Val, args []Val, call ast.Node) []Val {
	fd := fx.v.decls[key]
	spec := fx.v.contracts.Funcs[key]
	if spec != nil && !spec.Inline {
		return fx.callByContract(st, key, spec, fd, recv, args, call)
	}
	if fd == nil {
		panic(unsupported("call to " + key + ": no contract and no source"))
	}
	if ret := singleReturn(fd.decl); ret != nil {
		return fx.inlineExprCall(st, fd, recv, args, ret)
	}
	panic(unsupported("call to " + key + " needs a contract (body is not a single return expression)"))
}

func singleReturn(d *ast.FuncDecl) []ast.Expr {
	if d.Body == nil || len(d.Body.List) != 1 {
		return nil
	}
	r, ok := d.Body.List[0].(*ast.ReturnStmt)
	if !ok {
		return nil
	}
	return r.Results
}

func (fx *Fx) bindParams(st *State, fd *FuncDeclInfo, recv *Val, args []Val) {
	d := fd.decl
	info := fd.pkg.info
	if d.Recv != nil && len(d.Recv.List) > 0 && len(d.Recv.List[0].Names) > 0 && recv != nil {
		o := info.Defs[d.Recv.List[0].Names[0]]
		if o != nil {
			v := *recv
			if v.T == nil {
				v.T = o.Type()
			}
			st.env[o] = v
			st.names[o.Name()] = o
		}
	}
	i := 0
	for _, f := range d.Type.Params.List {
		if len(f.Names) == 0 {
			i++
			continue
		}
		for _, n := range f.Names {
			o := info.Defs[n]
			if o != nil && n.Name != "_" && i < len(args) {
				v := args[i]
				keepT := v.T
				v.T = o.Type()
				if v.Root != "" || keepT == nil {
					// keep interior pointers
				}
				st.env[o] = v
				st.names[o.Name()] = o
			}
			i++
		}
	}
}

func (fx *Fx) inlineExprCall(st *State, fd *FuncDeclInfo, recv *Val, args []Val, rets []ast.Expr) []Val {
	if fx.depth > 12 {
		panic(unsupported("inlining too deep"))
	}
	fx.depth++
	savedPkg := fx.pkg
	savedNames := st.names
	st.names = map[string]types.Object{}
	for k, v := range savedNames {
		st.names[k] = v
	}
	fx.pkg = fd.pkg
	fx.bindParams(st, fd, recv, args)
	var out []Val
	if len(rets) == 1 {
		if c, ok := ast.Unparen(rets[0]).(*ast.CallExpr); ok {
			out = fx.evalCall(st, c, false)
		}
	}
	if out == nil {
		for _, r := range rets {
			out = append(out, fx.eval(st, r, false))
		}
	}
	fx.pkg = savedPkg
	st.names = savedNames
	fx.depth--
	return out
}

// specBindings builds the name bindings under which a callee's contract is evaluated at a call site.
func (fx *Fx) specBindings(fd *FuncDeclInfo, spec *FuncSpec, recv *Val, args []Val) map[string]Val {
	b := map[string]Val{}
	if fd != nil {
		d := fd.decl
		if d.Recv != nil && len(d.Recv.List) > 0 && len(d.Recv.List[0].Names) > 0 && recv != nil {
			b[d.Recv.List[0].Names[0].Name] = *recv
		}
		i := 0
		for _, f := range d.Type.Params.List {
			if len(f.Names) == 0 {
				i++
				continue
			}
			for _, n := range f.Names {
				if i < len(args) {
					v := args[i]
					if o := fd.pkg.info.Defs[n]; o != nil && v.Root == "" {
						v.T = o.Type()
					}
					b[n.Name] = v
				}
				i++
			}
		}
		return b
	}
	for i, n := range spec.Params {
		if i < len(args) {
			b[n] = args[i]
		}
	}
	if recv != nil {
		b["recv"] = *recv
	}
	return b
}

func resultNames(fd *FuncDeclInfo, spec *FuncSpec, n int) []string {
	var names []string
	if fd != nil && fd.decl.Type.Results != nil {
		for _, f := range fd.decl.Type.Results.List {
			if len(f.Names) == 0 {
				names = append(names, "")
			}
			for _, nm := range f.Names {
				names = append(names, nm.Name)
			}
		}
	} else if spec != nil {
		names = append(names, spec.Results...)
	}
	for len(names) < n {
		names = append(names, "")
	}
	return names
}

func defaultResultName(i int) string {
	if i == 0 {
		return "result"
	}
	return fmt.Sprintf("result%d", i)
}

func (fx *Fx) callByContract(st *State, key string, spec *FuncSpec, fd *FuncDeclInfo, recv *Val, args []Val, call ast.Node) []Val {
	ord := fx.siteOrdinal(call, key)
	bind := fx.specBindings(fd, spec, recv, args)
	callee := fx.pkg
	if fd != nil {
		callee = fd.pkg
	}
	// preconditions
	assumedWhy, assumePre := "", false
	if fx.rootSpec != nil {
		for suffix, why := range fx.rootSpec.AssumePre {
			if strings.HasSuffix(key, suffix) {
				assumePre, assumedWhy = true, why
			}
		}
	}
	for _, r := range spec.Requires {
		g := fx.specEval(st, callee, bind, nil, r.Expr)
		if assumePre {
			fx.assumed[fmt.Sprintf("precondition %s of %s is assumed at its call in %s: %s", r.Label, key, fx.key, assumedWhy)] = true
		} else {
			fx.oblige(st, "pre", fmt.Sprintf("%s@%d:%s", key, ord, r.Label), g, r.Text)
		}
		st.assume(g)
	}
	pre := st.clone()
	st.births++ // the callee may allocate: its new cells are younger than everything the caller knew
	if fx.v.mayTouchTrace(key) || fx.specUsesTrace(spec) {
		fx.havocTrace(st) // the callee appends to the ghost call trace
	}
	// havoc the modifies set
	for _, m := range spec.Modifies {
		fx.havocSpecLocOld(st, callee, bind, m, pre)
	}
	// function values handed to the callee may be called by it: whatever they can write is unknown afterwards
	for _, a := range args {
		fx.havocFuncArg(st, a)
	}
	// results
	var sig *types.Signature
	if fd != nil {
		sig = fd.obj.Type().(*types.Signature)
	}
	var results []Val
	if sig != nil {
		names := resultNames(fd, spec, sig.Results().Len())
		for i := 0; i < sig.Results().Len(); i++ {
			rt := sig.Results().At(i).Type()
			rt = fx.instantiate(rt, fd, recv, args)
			v := fx.freshVal(st, "ret_"+key, rt)
			if v.S == SRef {
				// nothing known about freshness unless the contract says so
			}
			results = append(results, v)
			if names[i] != "" && names[i] != "_" {
				bind[names[i]] = v
			}
			bind[defaultResultName(i)] = v
		}
	}
	for _, e := range spec.Ensures {
		st.assume(fx.specEval(st, callee, bind, pre, e.Expr))
	}
	if spec.Trusted {
		fx.assumed["assumed contract of "+key] = true
	}
	if spec.Traced {
		// ghost: the call itself becomes the newest entry of the trace (after whatever the callee recorded)
		name := key[strings.LastIndex(key, ".")+1:]
		recvX := "nil"
		if recv != nil {
			recvX = recv.X
		}
		for j, a := range args {
			col := fmt.Sprintf("arg_%s_%d", name, j)
			fx.v.colSorts[col] = a.S
			fx.v.colTypes[col] = a.T
		}
		saved := st.iterK
		fx.abstractCallQuiet(st, recvX, name, args)
		st.iterK = saved
	}
	return results
}

// havocFuncArg: the callee may call this function value any number of times.
func (fx *Fx) havocFuncArg(st *State, a Val) {
	if a.Fn == nil {
		return
	}
	if a.Fn.Lit != nil {
		ws := fx.collectWrites([]ast.Node{a.Fn.Lit.Body}, st)
		fx.havoc(st, ws)
		return
	}
	if a.Fn.Key != "" && a.Fn.Recv != nil {
		spec := fx.v.contracts.Funcs[a.Fn.Key]
		fd := fx.v.decls[a.Fn.Key]
		if spec == nil || fd == nil {
			panic(unsupported("method value " + a.Fn.Key + " passed as an argument needs a contract"))
		}
		bind := fx.specBindings(fd, spec, a.Fn.Recv, nil)
		for _, m := range spec.Modifies {
			fx.havocSpecLoc(st, fd.pkg, bind, m)
		}
		if fx.v.mayTouchTrace(a.Fn.Key) {
			fx.havocTrace(st)
		}
	}
}

// siteOrdinal numbers the call sites of one callee in source order within the enclosing declaration,
// so that obligation names do not depend on the order in which paths are explored.
func (fx *Fx) siteOrdinal(call ast.Node, key string) int {
	if fx.siteOrd == nil {
		fx.siteOrd = map[ast.Node]int{}
	}
	if n, ok := fx.siteOrd[call]; ok {
		return n
	}
	fx.callOrd[key]++
	fx.siteOrd[call] = fx.callOrd[key]
	return fx.callOrd[key]
}

// instantiate substitutes type parameters in a callee's result type using the actual argument types (best effort).
func (fx *Fx) instantiate(t types.Type, fd *FuncDeclInfo, recv *Val, args []Val) types.Type {
	tp, ok := t.(*types.TypeParam)
	if !ok {
		return t
	}
	sig := fd.obj.Type().(*types.Signature)
	try := func(formal types.Type, actual types.Type) types.Type {
		if formal == nil || actual == nil {
			return nil
		}
		return matchTypeParam(formal, actual, tp)
	}
	if recv != nil && sig.Recv() != nil {
		if r := try(sig.Recv().Type(), recv.T); r != nil {
			return r
		}
	}
	for i := 0; i < sig.Params().Len() && i < len(args); i++ {
		if r := try(sig.Params().At(i).Type(), args[i].T); r != nil {
			return r
		}
	}
	return t
}

func matchTypeParam(formal, actual types.Type, tp *types.TypeParam) types.Type {
	switch f := formal.(type) {
	case *types.TypeParam:
		if f.Obj().Name() == tp.Obj().Name() {
			return actual
		}
	case *types.Pointer:
		if a, ok := actual.(*types.Pointer); ok {
			return matchTypeParam(f.Elem(), a.Elem(), tp)
		}
	case *types.Slice:
		if a, ok := actual.(*types.Slice); ok {
			return matchTypeParam(f.Elem(), a.Elem(), tp)
		}
	case *types.Named:
		if a, ok := actual.(*types.Named); ok && f.TypeArgs() != nil && a.TypeArgs() != nil {
			for i := 0; i < f.TypeArgs().Len() && i < a.TypeArgs().Len(); i++ {
				if r := matchTypeParam(f.TypeArgs().At(i), a.TypeArgs().At(i), tp); r != nil {
					return r
				}
			}
		}
	}
	return nil
}

// specEval evaluates a contract expression in state st under the given bindings; old refers to pre.
func (fx *Fx) specEval(st *State, pkg *Pkg, bind map[string]Val, pre *State, e ast.Expr) string {
	v := fx.specEvalVal(st, pkg, bind, pre, e)
	if v.S != SBool {
		panic(unsupported("contract clause is not boolean: " + exprText(e)))
	}
	return v.X
}

func (fx *Fx) specEvalVal(st *State, pkg *Pkg, bind map[string]Val, pre *State, e ast.Expr) Val {
	sp := st.clone()
	if bind != nil {
		sp.names = map[string]types.Object{}
		sp.bound = map[string]Val{}
		for k, v := range bind {
			sp.bound[k] = v
		}
	}
	if pre != nil {
		sp.old = pre
	}
	saved := fx.pkg
	fx.pkg = pkg
	fx.inSpec++
	defer func() { fx.pkg = saved; fx.inSpec-- }()
	v := fx.eval(sp, e, true)
	// facts assumed while evaluating (e.g. definitions of fresh slice terms) must be kept
	for _, a := range sp.pc[len(st.pc):] {
		st.assume(a)
	}
	return v
}

func (fx *Fx) havocSpecLoc(st *State, pkg *Pkg, bind map[string]Val, e ast.Expr) {
	fx.havocSpecLocOld(st, pkg, bind, e, nil)
}

func (fx *Fx) havocSpecLocOld(st *State, pkg *Pkg, bind map[string]Val, e ast.Expr, pre *State) {
	sp := st.clone()
	if pre != nil {
		sp.old = pre
	}
	if bind != nil {
		sp.names = map[string]types.Object{}
		sp.bound = map[string]Val{}
		for k, v := range bind {
			sp.bound[k] = v
		}
	}
	saved := fx.pkg
	fx.pkg = pkg
	fx.inSpec++
	p := fx.evalPlace(sp, e, true)
	fx.pkg = saved
	fx.inSpec--
	if p.loc == nil {
		panic(unsupported("modifies clause is not a location: " + exprText(e)))
	}
	// the location was computed on a clone sharing heap terms with st; store into st
	if p.loc.S != "" {
		fx.store(st, p.loc, Val{T: p.loc.T, S: p.loc.S, X: fx.d.freshConst("havoc_"+sanitize(exprText(e)), p.loc.S)})
		return
	}
	nv := fx.freshVal(st, "havoc_"+sanitize(exprText(e)), p.loc.T)
	fx.store(st, p.loc, nv)
}

// ---------- closures ----------

func (fx *Fx) litKey(l *ast.FuncLit) string {
	if n, ok := fx.litOrd[l]; ok {
		return fmt.Sprintf("%s$%d", fx.key, n)
	}
	return fx.key + "$?"
}

func (fx *Fx) callClosure(st *State, c *Closure, args []Val, call *ast.CallExpr) []Val {
	if c.Lit == nil {
		// method value
		return fx.callKnown(st, c.Key, c.Recv, args, call)
	}
	panic(unsupported("call of closure " + c.Key + " in expression position"))
}

// ---------- abstract callees with a ghost call trace ----------

func (fx *Fx) trCol(st *State, name, elemSort string) string {
	if t, ok := st.trCols[name]; ok {
		return t
	}
	t := fx.d.declareConst("T_"+name+"@0", "(Array Int "+elemSort+")")
	st.trCols[name] = t
	return t
}

func (fx *Fx) trCount(st *State) string {
	if st.trN == "" {
		st.trN = fx.d.declareConst("T_n@0", SInt)
	}
	return st.trN
}

func (fx *Fx) methID(name string) string {
	c := fx.d.declareConst("meth_"+name, SInt)
	return c
}

type namedGhost struct {
	name string
	val  Val
}

// keyMethGhost: ghost map key -> trace index of the call of method meth made for that key in map-range loop ord.
func (fx *Fx) keyMethGhost(st *State, ord int, meth, keySort string) namedGhost {
	name := fmt.Sprintf("callatkey%d_%s", ord, meth)
	if g, ok := st.ghost[name]; ok {
		return namedGhost{name, g}
	}
	gs := fmt.Sprintf("(Array %s Int)", keySort)
	g := Val{S: gs, X: fx.d.declareConst(name+"@0", gs)}
	st.ghost[name] = g
	return namedGhost{name, g}
}

// untraced abstract callees: their results are arbitrary but they leave no entry in the ghost call trace
// (pure observers whose calls no property talks about).
var untraced = map[string]bool{"Logger": true, "Error": true, "Context": true, "Err": true, "Done": true}

func (fx *Fx) abstractCall(st *State, recv string, meth string, args []Val, sig *types.Signature, call ast.Node) []Val {
	if sig != nil && (meth == "Done" || meth == "Err") {
		if vs, ok := fx.ctxMethod(st, recv, meth, sig); ok {
			return vs
		}
	}
	if untraced[meth] {
		var results []Val
		if sig != nil {
			for j := 0; j < sig.Results().Len(); j++ {
				results = append(results, fx.freshVal(st, "r_"+meth, sig.Results().At(j).Type()))
			}
		}
		fx.note("calls of " + meth + "() are not recorded in the ghost call trace")
		return results
	}
	n := fx.trCount(st)
	st.trCols["recv"] = app("store", fx.trCol(st, "recv", SRef), n, recv)
	st.trCols["meth"] = app("store", fx.trCol(st, "meth", SInt), n, fmt.Sprint(fx.v.methNum(meth)))
	if st.iterK != "" {
		st.trCols["iter"] = app("store", fx.trCol(st, "iter", SInt), n, st.iterK)
		st.trCols["callat"] = app("store", fx.trCol(st, "callat", SInt), st.iterK, n)
	}
	if st.rangeKey != "" {
		col := "rkey_" + sanitize(st.rangeKeySort)
		fx.v.colSorts[col] = st.rangeKeySort
		st.trCols[col] = app("store", fx.trCol(st, col, st.rangeKeySort), n, st.rangeKey)
		st.trCols["rloop"] = app("store", fx.trCol(st, "rloop", SInt), n, fmt.Sprint(st.rangeOrd))
		gname := fmt.Sprintf("callatkey%d", st.rangeOrd)
		if g, ok := st.ghost[gname]; ok {
			st.ghost[gname] = Val{S: g.S, X: app("store", g.X, st.rangeKey, n)}
		}
		// per method: which call of this method was made for this key
		mg := fx.keyMethGhost(st, st.rangeOrd, meth, st.rangeKeySort)
		st.ghost[mg.name] = Val{S: mg.val.S, X: app("store", mg.val.X, st.rangeKey, n)}
	}
	for j, a := range args {
		col := fmt.Sprintf("arg_%s_%d", meth, j)
		st.trCols[col] = app("store", fx.trCol(st, col, a.S), n, a.X)
	}
	var results []Val
	if sig != nil {
		for j := 0; j < sig.Results().Len(); j++ {
			v := fx.freshVal(st, "r_"+meth, sig.Results().At(j).Type())
			col := fmt.Sprintf("ret_%s_%d", meth, j)
			st.trCols[col] = app("store", fx.trCol(st, col, v.S), n, v.X)
			results = append(results, v)
		}
	}
	nn := fx.d.freshConst("T_n", SInt)
	st.assume(app("=", nn, app("+", n, "1")))
	if meth == "Write" && len(results) > 0 && results[0].S == SInt {
		acc := fx.trCol(st, "acc", SInt)
		st.trCols["acc"] = app("store", acc, nn, app("+", app("select", acc, n), results[0].X))
	}
	st.trN = nn
	fx.assumed["abstract callee "+meth+": any result, no effect on the library's own state"] = true
	// optional assumed contract for the abstract callee
	if spec := fx.v.contracts.Funcs[fx.pkg.name+".@"+meth]; spec != nil {
		saved := map[string]Val{}
		for k, v := range st.bound {
			saved[k] = v
		}
		for i, p := range spec.Params {
			if i < len(args) {
				st.bound[p] = args[i]
			}
		}
		for i, r := range results {
			st.bound[defaultResultName(i)] = r
		}
		for _, e := range spec.Ensures {
			st.assume(fx.specEval(st, fx.pkg, nil, nil, e.Expr))
		}
		st.bound = saved
		fx.assumed["assumed contract of abstract callee "+meth] = true
	}
	return results
}

// abstractCallQuiet appends a ghost entry without results (used for traced contract calls).
func (fx *Fx) abstractCallQuiet(st *State, recv string, meth string, args []Val) {
	n := fx.trCount(st)
	st.trCols["recv"] = app("store", fx.trCol(st, "recv", SRef), n, recv)
	st.trCols["meth"] = app("store", fx.trCol(st, "meth", SInt), n, fmt.Sprint(fx.v.methNum(meth)))
	for j, a := range args {
		col := fmt.Sprintf("arg_%s_%d", meth, j)
		st.trCols[col] = app("store", fx.trCol(st, col, a.S), n, a.X)
	}
	nn := fx.d.freshConst("T_n", SInt)
	st.assume(app("=", nn, app("+", n, "1")))
	st.trN = nn
}

// ---------- contract-language builtins ----------

func (fx *Fx) specBuiltin(st *State, call *ast.CallExpr) ([]Val, bool) {
	id, ok := call.Fun.(*ast.Ident)
	if !ok {
		return nil, false
	}
	boolV := func(t string) []Val { return []Val{{T: types.Typ[types.Bool], S: SBool, X: t}} }
	intV := func(t string) []Val { return []Val{{T: types.Typ[types.Int], S: SInt, X: t}} }
	switch id.Name {
	case "old":
		if st.old == nil {
			return []Val{fx.eval(st, call.Args[0], true)}, true
		}
		o := st.old.clone()
		o.bound = st.bound
		o.ghost = st.old.ghost
		if len(st.names) == 0 {
			o.names = map[string]types.Object{}
		}
		o.old = nil
		v := fx.eval(o, call.Args[0], true)
		for _, a := range o.pc[len(st.old.pc):] {
			st.assume(a)
		}
		return []Val{v}, true
	case "let":
		// let(name, value, body): value is evaluated in the current state and stays visible inside old()
		name := call.Args[0].(*ast.Ident).Name
		v := fx.eval(st, call.Args[1], true)
		saved, had := st.bound[name]
		st.bound[name] = v
		r := fx.eval(st, call.Args[2], true)
		if had {
			st.bound[name] = saved
		} else {
			delete(st.bound, name)
		}
		return []Val{r}, true
	case "chanval":
		// chanval(x): the (reference-sorted) value received by the chanrecv entry x; nil for a closed channel
		k := fx.eval(st, call.Args[0], true)
		fx.v.colSorts["arg_chanrecv_1"] = SRef
		return []Val{{S: SRef, X: app("select", fx.trCol(st, "arg_chanrecv_1", SRef), k.X)}}, true
	case "incase":
		// incase(k): the k-th case of the innermost select was taken in this iteration
		k := fx.eval(st, call.Args[0], true).X
		g, ok := st.ghost["selcase"]
		if ok && g.X == k {
			return boolV("true"), true
		}
		return boolV("false"), true
	case "chclosed", "chcap", "chbuffered":
		a := fx.eval(st, call.Args[0], true)
		cell := fx.chanCell(st, a.X)
		switch id.Name {
		case "chclosed":
			return boolV(app("ch_closed", cell)), true
		case "chcap":
			return intV(app("ch_cap", cell)), true
		}
		return intV(app("ch_buffered", cell)), true
	case "reached":
		// reached(N): loop N was left through its guard on this path
		ord, _ := strconv.Atoi(fx.eval(st, call.Args[0], true).X)
		if st.loopExit != nil && st.loopExit[ord] != nil {
			return boolV("true"), true
		}
		return boolV("false"), true
	case "atexit":
		// atexit(N, e): value of e when loop N was left through its guard
		ord, _ := strconv.Atoi(fx.eval(st, call.Args[0], true).X)
		if st.loopExit == nil || st.loopExit[ord] == nil {
			panic(unsupported("atexit: loop was not left through its guard on this path (guard the clause with reached(N))"))
		}
		o := st.loopExit[ord].clone()
		o.bound = st.bound
		o.old = st.old
		n0 := len(o.pc)
		v := fx.eval(o, call.Args[1], true)
		for _, a := range o.pc[n0:] {
			st.assume(a)
		}
		return []Val{v}, true
	case "prev":
		if st.iterHead == nil {
			panic(unsupported("prev() outside a loop step clause"))
		}
		o := st.iterHead.clone()
		o.bound = st.bound
		o.old = st.old
		n0 := len(o.pc)
		v := fx.eval(o, call.Args[0], true)
		for _, a := range o.pc[n0:] {
			st.assume(a)
		}
		return []Val{v}, true
	case "imp":
		a := fx.boolTerm(st, call.Args[0], true)
		if a == "false" {
			return boolV("true"), true // (the consequent may not even be evaluable on this path)
		}
		b := fx.boolTerm(st, call.Args[1], true)
		return boolV(implies(a, b)), true
	case "iff":
		a := fx.boolTerm(st, call.Args[0], true)
		b := fx.boolTerm(st, call.Args[1], true)
		return boolV(app("=", a, b)), true
	case "ite":
		c := fx.boolTerm(st, call.Args[0], true)
		a := fx.eval(st, call.Args[1], true)
		b := fx.eval(st, call.Args[2], true)
		if a.S == SInt && b.S == SReal {
			a.X, a.S = app("to_real", a.X), SReal
		}
		return []Val{{T: a.T, S: a.S, X: ite(c, a.X, b.X)}}, true
	case "forall", "exists":
		// forall(i, lo, hi, body [, pattern])
		v := call.Args[0].(*ast.Ident).Name
		lo := fx.eval(st, call.Args[1], true).X
		hi := fx.eval(st, call.Args[2], true).X
		bv := fx.d.freshName("q_" + v)
		qs := sym(bv)
		saved, had := st.bound[v]
		st.bound[v] = Val{T: types.Typ[types.Int], S: SInt, X: qs}
		n := len(st.pc)
		fx.inQuant++
		body := fx.boolTerm(st, call.Args[3], true)
		fx.inQuant--
		// assumptions introduced under the binder cannot escape; they only come from slice definitions, which we forbid here
		if len(st.pc) != n {
			st.pc = st.pc[:n]
			panic(unsupported("quantifier body introduces definitions: " + exprText(call)))
		}
		pat := ""
		if len(call.Args) > 4 {
			pv := fx.eval(st, call.Args[4], true)
			pat = pv.X
		} else {
			pat = firstPattern(body, qs)
		}
		if had {
			st.bound[v] = saved
		} else {
			delete(st.bound, v)
		}
		rng := and(app("<=", lo, qs), app("<", qs, hi))
		var q string
		patS := ""
		if pat != "" {
			patS = " :pattern (" + pat + ")"
		}
		if id.Name == "forall" {
			if patS != "" {
				q = fmt.Sprintf("(forall ((%s Int)) (! %s%s))", qs, implies(rng, body), patS)
			} else {
				q = fmt.Sprintf("(forall ((%s Int)) %s)", qs, implies(rng, body))
			}
		} else {
			q = fmt.Sprintf("(exists ((%s Int)) %s)", qs, and(rng, body))
		}
		return boolV(q), true
	case "all", "some":
		// all(x, "int"|"string"|"ref", body): unbounded quantifier over a sort
		v := call.Args[0].(*ast.Ident).Name
		sortName := *fx.eval(st, call.Args[1], true).Lit
		sort, ok := map[string]string{"int": SInt, "string": SStr, "ref": SRef, "bool": SBool}[sortName]
		if !ok {
			panic(unsupported("all(): sort " + sortName))
		}
		var t types.Type
		switch sortName {
		case "int":
			t = types.Typ[types.Int]
		case "string":
			t = types.Typ[types.String]
		}
		qs := sym(fx.d.freshName("q_" + v))
		saved, had := st.bound[v]
		st.bound[v] = Val{T: t, S: sort, X: qs}
		n := len(st.pc)
		fx.inQuant++
		body := fx.boolTerm(st, call.Args[2], true)
		fx.inQuant--
		if len(st.pc) != n {
			st.pc = st.pc[:n]
			panic(unsupported("quantifier body introduces definitions: " + exprText(call)))
		}
		if had {
			st.bound[v] = saved
		} else {
			delete(st.bound, v)
		}
		pat := firstPattern(body, qs)
		patS := ""
		if pat != "" {
			patS = " :pattern (" + pat + ")"
		}
		kw := "forall"
		if id.Name == "some" {
			kw = "exists"
		}
		if patS != "" && kw == "forall" {
			return boolV(fmt.Sprintf("(%s ((%s %s)) (! %s%s))", kw, qs, sort, body, patS)), true
		}
		return boolV(fmt.Sprintf("(%s ((%s %s)) %s)", kw, qs, sort, body)), true
	case "len":
		v := fx.eval(st, call.Args[0], true)
		if v.T != nil {
			if a, ok := v.T.Underlying().(*types.Array); ok {
				return intV(fmt.Sprint(a.Len())), true
			}
			if m, ok := v.T.Underlying().(*types.Map); ok {
				return intV(fx.mapLen(st, v, m)), true
			}
		}
		return intV(fx.seqLen(v)), true
	case "min", "max":
		a := fx.eval(st, call.Args[0], true)
		b := fx.eval(st, call.Args[1], true)
		if id.Name == "min" {
			return []Val{{T: a.T, S: a.S, X: ite(app("<=", a.X, b.X), a.X, b.X)}}, true
		}
		return []Val{{T: a.T, S: a.S, X: ite(app(">=", a.X, b.X), a.X, b.X)}}, true
	case "substr":
		s := fx.eval(st, call.Args[0], true)
		a := fx.eval(st, call.Args[1], true)
		b := fx.eval(st, call.Args[2], true)
		return []Val{{T: s.T, S: SStr, X: app("ssub", s.X, a.X, b.X)}}, true
	case "fmtU":
		a := fx.eval(st, call.Args[0], true)
		return []Val{{T: types.Typ[types.String], S: SStr, X: app("fmtU", a.X)}}, true
	case "parseIok":
		a := fx.eval(st, call.Args[0], true)
		return boolV(app("parseI_ok", a.X)), true
	case "parseIval":
		a := fx.eval(st, call.Args[0], true)
		return intV(app("parseI_val", a.X)), true
	case "parseUok":
		a := fx.eval(st, call.Args[0], true)
		return boolV(app("parseU_ok", a.X)), true
	case "parseUval":
		a := fx.eval(st, call.Args[0], true)
		return intV(app("parseU_val", a.X)), true
	case "toReal":
		a := fx.eval(st, call.Args[0], true)
		if a.S == SReal {
			return []Val{a}, true
		}
		return []Val{{S: SReal, X: app("to_real", a.X)}}, true
	case "ringidx":
		h := fx.eval(st, call.Args[0], true)
		l := fx.eval(st, call.Args[1], true)
		k := fx.eval(st, call.Args[2], true)
		return intV(app("ringidx", h.X, l.X, k.X)), true
	case "cap", "backing":
		a := fx.eval(st, call.Args[0], true)
		if !strings.HasPrefix(a.S, "Seq_") {
			panic(unsupported(id.Name + " of a non-slice"))
		}
		if id.Name == "cap" {
			return intV(app("cap_"+a.S, a.X)), true
		}
		return []Val{{S: SRef, X: app("bk_"+a.S, a.X)}}, true
	case "zeroelem":
		a := fx.eval(st, call.Args[0], true)
		et := elemType(a.T)
		if et == nil {
			panic(unsupported("zeroelem of untyped sequence"))
		}
		return []Val{{T: et, S: fx.d.sortOf(et), X: fx.d.zeroOf(et)}}, true
	case "eqbytes":
		// extensional equality of two byte strings
		a := fx.eval(st, call.Args[0], true)
		b := fx.eval(st, call.Args[1], true)
		qv := sym(fx.d.freshName("q_e"))
		return boolV(and(app("=", app("slen", a.X), app("slen", b.X)),
			fmt.Sprintf("(forall ((%s Int)) (! (=> (and (<= 0 %s) (< %s (slen %s))) (= (sat %s %s) (sat %s %s))) :pattern ((sat %s %s)) :pattern ((sat %s %s))))", qv, qv, qv, a.X, a.X, qv, b.X, qv, a.X, qv, b.X, qv))), true
	case "indexbyte":
		a := fx.eval(st, call.Args[0], true)
		c := fx.eval(st, call.Args[1], true)
		if fx.inQuant > 0 {
			f := fx.d.declareFun("indexbyte", []string{SStr, SInt}, SInt)
			return intV(app(f, a.X, c.X)), true
		}
		return []Val{fx.indexByte(st, a, c)}, true
	case "visited", "indom0":
		// visited(ord, key): key was already produced by the map-range loop with that ordinal; indom0: in the map at loop entry
		ord := fx.eval(st, call.Args[0], true).X
		k := fx.eval(st, call.Args[1], true)
		g, ok := st.ghost[map[string]string{"visited": "visited", "indom0": "dom0_"}[id.Name]+ord]
		if !ok {
			panic(unsupported("no map-range loop " + ord + " in scope for " + id.Name))
		}
		return boolV(app("select", g.X, k.X)), true
	case "has":
		// has(m, k): key k is in map m
		mv := fx.eval(st, call.Args[0], true)
		k := fx.eval(st, call.Args[1], true)
		mt, ok := mv.T.Underlying().(*types.Map)
		if !ok {
			panic(unsupported("has() on a non-map"))
		}
		return boolV(fx.mapHas(st, mv, mt, k)), true
	case "hastype":
		a := fx.eval(st, call.Args[0], true)
		name := *fx.eval(st, call.Args[1], true).Lit
		var t types.Type
		switch name {
		case "string":
			t = types.Typ[types.String]
		case "[]byte":
			t = types.NewSlice(types.Typ[types.Byte])
		default:
			panic(unsupported("hastype " + name))
		}
		return boolV(and(not(app("=", a.X, "nil")), app("=", app("dyntype", a.X), fmt.Sprint(fx.v.typeID(t))))), true
	case "scsplitis":
		// scsplitis(sc, "pkg.Recv.Func"): the scanner's split function is that function
		a := fx.eval(st, call.Args[0], true)
		lit, ok := ast.Unparen(call.Args[1]).(*ast.BasicLit)
		if !ok {
			panic(unsupported("scsplitis needs a function key literal"))
		}
		key, _ := strconv.Unquote(lit.Value)
		return boolV(app("=", app("select", fx.heapTerm(st, "ghost_scsplitfn", SInt), a.X), fmt.Sprint(fx.v.fnID(key)))), true
	case "scsplitrecv":
		a := fx.eval(st, call.Args[0], true)
		return []Val{{T: types.Typ[types.UnsafePointer], S: SRef, X: app("select", fx.heapTerm(st, "ghost_scsplitrecv", SRef), a.X)}}, true
	case "scmax":
		a := fx.eval(st, call.Args[0], true)
		return intV(app("sc_max", fx.scannerCell(st, a.X))), true
	case "scdone", "scerr", "sctok", "scstarted":
		a := fx.eval(st, call.Args[0], true)
		c := fx.scannerCell(st, a.X)
		switch id.Name {
		case "scdone":
			return boolV(app("sc_done", c)), true
		case "scstarted":
			return boolV(app("sc_started", c)), true
		case "scerr":
			return []Val{{T: types.Universe.Lookup("error").Type(), S: SRef, X: app("sc_err", c)}}, true
		}
		return []Val{{T: types.Typ[types.String], S: SStr, X: app("sc_tok", c)}}, true
	case "scannercell":
		a := fx.eval(st, call.Args[0], true)
		_ = a
		panic(unsupported("scannercell is only valid in modifies clauses"))
	case "implements":
		a := fx.eval(st, call.Args[0], true)
		name := *fx.eval(st, call.Args[1], true).Lit
		o := fx.pkg.types.Scope().Lookup(name)
		if o == nil {
			panic(unsupported("implements: no type " + name))
		}
		p := fx.d.declareFun("implements_"+typeKey(o.Type()), []string{SRef}, SBool)
		return boolV(and(not(app("=", a.X, "nil")), app(p, a.X))), true
	case "hasdyn":
		// hasdyn(x, "TypeName"): the dynamic type of interface value x is the package's named type
		a := fx.eval(st, call.Args[0], true)
		name := *fx.eval(st, call.Args[1], true).Lit
		ptr := strings.HasPrefix(name, "*")
		o := fx.pkg.types.Scope().Lookup(strings.TrimPrefix(name, "*"))
		if o == nil {
			panic(unsupported("hasdyn: no type " + name))
		}
		dt := o.Type()
		if ptr {
			dt = types.NewPointer(dt)
		}
		return boolV(and(not(app("=", a.X, "nil")), app("=", app("dyntype", a.X), fmt.Sprint(fx.v.typeID(dt))))), true
	case "asstr":
		a := fx.eval(st, call.Args[0], true)
		f := fx.d.declareFun("unbox_"+sanitize(SStr), []string{SRef}, SStr)
		return []Val{{T: types.Typ[types.String], S: SStr, X: app(f, a.X)}}, true
	case "trunc":
		a := fx.eval(st, call.Args[0], true)
		return intV(ite(app(">=", a.X, "0.0"), app("to_int", a.X), app("-", app("to_int", app("-", a.X))))), true
	case "fresh":
		// fresh(p): p was allocated during the call
		a := fx.eval(st, call.Args[0], true)
		fx.d.declareFun("birth", []string{SRef}, SInt)
		base := 0
		if st.old != nil {
			base = st.old.births
		}
		return boolV(app(">", app(sym("birth"), a.X), fmt.Sprint(base))), true
	case "allocated":
		a := fx.eval(st, call.Args[0], true)
		fx.d.declareFun("birth", []string{SRef}, SInt)
		return boolV(or(app("=", a.X, "nil"), app("<=", app(sym("birth"), a.X), fmt.Sprint(st.births)))), true
	case "ncalls":
		return intV(fx.trCount(st)), true
	case "timenow", "timesince":
		// the value the most recent time.Now() / time.Since() call returned on this path
		g, ok := st.ghost[map[string]string{"timenow": "lastnow", "timesince": "lastsince"}[id.Name]]
		if !ok {
			// no such call on this path: an arbitrary value (clauses that use it are guarded by the path's own conditions)
			return intV(fx.d.freshConst(id.Name+"_none", SInt)), true
		}
		return []Val{g}, true
	case "erris":
		// erris(e, t): what errors.Is(e, t) yields (same uninterpreted relation as in the code)
		a := fx.eval(st, call.Args[0], true)
		b := fx.eval(st, call.Args[1], true)
		f := fx.d.declareFun("errIs", []string{SRef, SRef}, SBool)
		return boolV(app(f, a.X, b.X)), true
	case "lastctxerrval":
		if g, ok := st.ghost["ctxerrval"]; ok {
			return []Val{g}, true
		}
		return []Val{{T: types.Universe.Lookup("error").Type(), S: SRef, X: fx.d.freshConst("ctxerrval_none", SRef)}}, true
	case "lastctxerr":
		// trace length at the moment a context's Err() was last called on this path (-1: never)
		if g, ok := st.ghost["ctxerrat"]; ok {
			return intV(g.X), true
		}
		c := fx.d.declareConst("ctxerrat@0", SInt)
		st.ghost["ctxerrat"] = Val{T: types.Typ[types.Int], S: SInt, X: c}
		return intV(c), true
	case "iscall":
		k := fx.eval(st, call.Args[0], true)
		name := *fx.eval(st, call.Args[1], true).Lit
		return boolV(app("=", app("select", fx.trCol(st, "meth", SInt), k.X), fmt.Sprint(fx.v.methNum(name)))), true
	case "crecv":
		k := fx.eval(st, call.Args[0], true)
		return []Val{{S: SRef, X: app("select", fx.trCol(st, "recv", SRef), k.X)}}, true
	case "dohasid", "doid", "doidlen", "dobody":
		k := fx.eval(st, call.Args[0], true)
		switch id.Name {
		case "dohasid":
			return boolV(app("select", fx.trCol(st, "do_hasid", SBool), k.X)), true
		case "doidlen":
			return intV(app("select", fx.trCol(st, "do_idlen", SInt), k.X)), true
		case "dobody":
			return []Val{{S: SRef, X: app("select", fx.trCol(st, "do_body", SRef), k.X)}}, true
		}
		return []Val{{T: types.Typ[types.String], S: SStr, X: app("select", fx.trCol(st, "do_id", SStr), k.X)}}, true
	case "written":
		// written(a, b): bytes accepted by the Write calls with trace index in [a, b)
		a := fx.eval(st, call.Args[0], true)
		b := fx.eval(st, call.Args[1], true)
		acc := fx.trCol(st, "acc", SInt)
		return intV(app("-", app("select", acc, b.X), app("select", acc, a.X))), true
	case "ckeyint", "ckeystr", "ckeyref":
		k := fx.eval(st, call.Args[0], true)
		sort := map[string]string{"ckeyint": SInt, "ckeystr": SStr, "ckeyref": SRef}[id.Name]
		col := "rkey_" + sanitize(sort)
		fx.v.colSorts[col] = sort
		return []Val{{S: sort, X: app("select", fx.trCol(st, col, sort), k.X)}}, true
	case "cloop":
		k := fx.eval(st, call.Args[0], true)
		return intV(app("select", fx.trCol(st, "rloop", SInt), k.X)), true
	case "callatkeym":
		// callatkeym(ord, "Meth", key): trace index of the call of Meth made for key in map-range loop ord
		ord, _ := strconv.Atoi(fx.eval(st, call.Args[0], true).X)
		meth := *fx.eval(st, call.Args[1], true).Lit
		k := fx.eval(st, call.Args[2], true)
		mg := fx.keyMethGhost(st, ord, meth, k.S)
		return intV(app("select", mg.val.X, k.X)), true
	case "callatkey":
		ord := fx.eval(st, call.Args[0], true).X
		k := fx.eval(st, call.Args[1], true)
		g, ok := st.ghost["callatkey"+ord]
		if !ok {
			// the loop was not reached on this path: an arbitrary mapping
			gs := fmt.Sprintf("(Array %s Int)", k.S)
			g = Val{S: gs, X: fx.d.declareConst("callatkey"+ord+"@unreached", gs)}
		}
		return intV(app("select", g.X, k.X)), true
	case "callat":
		k := fx.eval(st, call.Args[0], true)
		return intV(app("select", fx.trCol(st, "callat", SInt), k.X)), true
	case "citer":
		k := fx.eval(st, call.Args[0], true)
		return intV(app("select", fx.trCol(st, "iter", SInt), k.X)), true
	case "carg", "cret":
		// carg(k, "Meth", j, sortExample)  -- the sort is taken from the column if it exists
		k := fx.eval(st, call.Args[0], true)
		name := *fx.eval(st, call.Args[1], true).Lit
		j := fx.eval(st, call.Args[2], true).X
		col := fmt.Sprintf("%s_%s_%s", map[string]string{"carg": "arg", "cret": "ret"}[id.Name], name, j)
		sort, t := fx.v.traceColSort(fx, col)
		return []Val{{T: t, S: sort, X: app("select", fx.trCol(st, col, sort), k.X)}}, true
	}
	if pf, ok := fx.v.contracts.Pures[fx.pkg.name+"."+id.Name]; ok {
		if len(call.Args) != len(pf.Params) {
			panic(unsupported("arity of pure function " + id.Name))
		}
		vals := make([]Val, len(call.Args))
		for i, a := range call.Args {
			vals[i] = fx.eval(st, a, true)
		}
		if pf.Opaque {
			return []Val{fx.opaqueCall(st, pf, vals)}, true
		}
		saved := st.bound
		nb := map[string]Val{}
		for i, p := range pf.Params {
			nb[p] = vals[i]
		}
		savedNames := st.names
		st.bound = nb
		st.names = map[string]types.Object{}
		v := fx.eval(st, pf.Body, true)
		st.bound = saved
		st.names = savedNames
		return []Val{v}, true
	}
	return nil, false
}

// opaqueCall applies an opaque spec function: an SMT function symbol defined by one quantified axiom.
func (fx *Fx) opaqueCall(st *State, pf *PureFunc, args []Val) Val {
	name := "spec_" + pf.Name
	var sorts []string
	for _, a := range args {
		name += "_" + sanitize(a.S)
		sorts = append(sorts, a.S)
	}
	if fx.opaqueRet == nil {
		fx.opaqueRet = map[string]Val{}
	}
	ret, done := fx.opaqueRet[name]
	if !done {
		// evaluate the body once over placeholder constants, then generalise them into bound variables
		ph := make([]Val, len(args))
		nb := map[string]Val{}
		var binders, phNames []string
		for i, a := range args {
			c := fx.d.freshConst("ph_"+pf.Params[i], a.S)
			ph[i] = Val{T: a.T, S: a.S, X: c}
			nb[pf.Params[i]] = ph[i]
			phNames = append(phNames, c)
			binders = append(binders, fmt.Sprintf("(%s %s)", sym("x_"+pf.Params[i]), a.S))
		}
		sp := st.clone()
		sp.bound = nb
		sp.names = map[string]types.Object{}
		n := len(sp.pc)
		fx.inQuant++
		body := fx.eval(sp, pf.Body, true)
		fx.inQuant--
		if len(sp.pc) != n {
			panic(unsupported("opaque spec function " + pf.Name + " introduces definitions"))
		}
		f := fx.d.declareFun(name, sorts, body.S)
		term := body.X
		var actuals []string
		for i, c := range phNames {
			v := sym("x_" + pf.Params[i])
			term = strings.ReplaceAll(term, c, v)
			actuals = append(actuals, v)
		}
		lhs := app(f, actuals...)
		fx.d.axioms = append(fx.d.axioms, fmt.Sprintf("(assert (forall (%s) (! (= %s %s) :pattern (%s))))", strings.Join(binders, " "), lhs, term, lhs))
		ret = Val{T: body.T, S: body.S}
		fx.opaqueRet[name] = ret
	}
	var xs []string
	for _, a := range args {
		xs = append(xs, a.X)
	}
	return Val{T: ret.T, S: ret.S, X: app(sym(name), xs...)}
}

// firstPattern picks trigger terms for a bounded quantifier: every application (select a qv), (sat s qv),
// (ringidx h l qv), ... in which the bound variable is a direct argument; each is offered as an alternative pattern.
func firstPattern(body, qv string) string {
	var alts []string
	seen := map[string]bool{}
	for _, head := range []string{"(ringidx ", "(select ", "(sat ", "(|birth| ", "(fmtU "} {
		idx := 0
		for {
			j := strings.Index(body[idx:], head)
			if j < 0 {
				break
			}
			start := idx + j
			end := matchParen(body, start)
			if end < 0 {
				break
			}
			term := body[start : end+1]
			idx = start + 1
			if !strings.HasSuffix(term, " "+qv+")") || seen[term] || strings.Contains(term, "(ite ") || strings.Contains(term, "(=> ") {
				continue
			}
			// the remaining arguments must not contain the bound variable under arithmetic
			inner := term[:len(term)-len(qv)-2]
			if strings.Contains(inner, qv) && (strings.Contains(inner, "(+ ") || strings.Contains(inner, "(- ") || strings.Contains(inner, "(ite ")) {
				continue
			}
			seen[term] = true
			alts = append(alts, term)
		}
	}
	if len(alts) == 0 {
		return firstPatternLoose(body, qv)
	}
	if len(alts) > 6 {
		alts = alts[:6]
	}
	return strings.Join(alts, ") :pattern (")
}

func firstPatternLoose(body, qv string) string {
	best := ""
	for _, head := range []string{"(ringidx ", "(select ", "(sat ", "(|birth| ", "(fmtU "} {
		idx := 0
		for {
			j := strings.Index(body[idx:], head)
			if j < 0 {
				break
			}
			start := idx + j
			end := matchParen(body, start)
			if end < 0 {
				break
			}
			term := body[start : end+1]
			if strings.Contains(term, qv) && !strings.Contains(term[1:], "(+ ") && !strings.Contains(term[1:], "(- ") && !strings.Contains(term[1:], "(mod ") && !strings.Contains(term, "(ite ") {
				if best == "" || len(term) < len(best) {
					best = term
				}
			}
			idx = start + 1
		}
		if best != "" {
			return best
		}
	}
	return best
}

func matchParen(s string, start int) int {
	depth := 0
	inBar := false
	for i := start; i < len(s); i++ {
		c := s[i]
		switch {
		case c == '|':
			inBar = !inBar
		case inBar:
		case c == '(':
			depth++
		case c == ')':
			depth--
			if depth == 0 {
				return i
			}
		}
	}
	return -1
}

// specCall: calls of real functions/methods inside contract expressions (only inlineable ones).
func (fx *Fx) specCall(st *State, call *ast.CallExpr) []Val {
	switch f := call.Fun.(type) {
	case *ast.Ident:
		if o := fx.pkg.types.Scope().Lookup(f.Name); o != nil {
			if fn, ok := o.(*types.Func); ok {
				var args []Val
				for _, a := range call.Args {
					args = append(args, fx.eval(st, a, true))
				}
				return fx.callKnownSpec(st, fx.v.funcKey(fn), nil, args, call)
			}
			if tn, ok := o.(*types.TypeName); ok {
				return []Val{fx.convert(st, fx.eval(st, call.Args[0], true), tn.Type(), exprText(call))}
			}
		}
		switch f.Name {
		case "int", "int64", "uint64", "float64", "string", "byte":
			t := types.Universe.Lookup(f.Name).Type()
			return []Val{fx.convert(st, fx.eval(st, call.Args[0], true), t, exprText(call))}
		}
	case *ast.SelectorExpr:
		// package-qualified function or method on a value
		if id, ok := f.X.(*ast.Ident); ok {
			if _, b := st.bound[id.Name]; !b {
				if _, l := st.names[id.Name]; !l {
					if p := fx.v.importedPkg(fx.pkg, id.Name); p != nil {
						if fn, ok := p.Scope().Lookup(f.Sel.Name).(*types.Func); ok {
							var args []Val
							for _, a := range call.Args {
								args = append(args, fx.eval(st, a, true))
							}
							if fx.v.pkgByTypes[p] != nil {
								return fx.callKnownSpec(st, fx.v.funcKey(fn), nil, args, call)
							}
						}
					}
				}
			}
		}
		rp := fx.evalPlace(st, f.X, true)
		var bt types.Type
		if rp.loc != nil {
			bt = rp.loc.T
		} else {
			bt = rp.val.T
		}
		if tp, ok := bt.(*types.TypeParam); ok {
			obj, _, _ := types.LookupFieldOrMethod(bt, true, fx.pkg.types, f.Sel.Name)
			if fn, ok := obj.(*types.Func); ok {
				return []Val{fx.typeParamMethod(fx.get(st, rp), tp, fn)}
			}
		}
		if bt != nil {
			for _, p := range fx.v.pkgs {
				obj, mpath, _ := types.LookupFieldOrMethod(bt, true, p.types, f.Sel.Name)
				if fn, ok := obj.(*types.Func); ok {
					if len(mpath) > 1 {
						rp = fx.walkFields(st, rp, bt, mpath[:len(mpath)-1], exprText(f.X), true)
					}
					fn = fn.Origin()
					sig := fn.Type().(*types.Signature)
					if fn.Pkg() != nil && fx.v.pkgByTypes[fn.Pkg()] == nil {
						// standard-library method in a contract (time.Time.After etc.)
						recv := fx.get(st, rp)
						var args []Val
						for _, a := range call.Args {
							args = append(args, fx.eval(st, a, true))
						}
						if vs, ok := fx.stdlibMethod(st, fn, recv, args); ok {
							return vs
						}
						break
					}
					rv := fx.receiverValue(st, rp, sig, exprText(f.X), true)
					var args []Val
					for _, a := range call.Args {
						args = append(args, fx.eval(st, a, true))
					}
					return fx.callKnownSpec(st, fx.v.funcKey(fn), &rv, args, call)
				}
			}
		}
	}
	panic(unsupported("call in contract: " + exprText(call)))
}

func (fx *Fx) callKnownSpec(st *State, key string, recv *Val, args []Val, call ast.Node) []Val {
	fd := fx.v.decls[key]
	if fd == nil {
		panic(unsupported("contract calls unknown function " + key))
	}
	if ret := singleReturn(fd.decl); ret != nil {
		return fx.inlineExprCall(st, fd, recv, args, ret)
	}
	panic(unsupported("contract calls non-inlineable function " + key))
}

var _ = token.ADD
