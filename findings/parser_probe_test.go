package parser

import (
	"errors"
	"io"
	"strings"
	"testing"
)

type failAfter struct {
	data string
	err  error
}

func (f *failAfter) Read(p []byte) (int, error) {
	if f.data == "" {
		return 0, f.err
	}
	n := copy(p, f.data)
	f.data = f.data[n:]
	return n, nil
}

// A last token without fields (a comment line, then a clean end of input): once Next has returned false,
// Err must report why iteration ended (io.EOF here); nil would make the client return nil from Connect.
func TestVerifProbeNextFieldlessToken(t *testing.T) {
	p := New(strings.NewReader("data: x\n\n: just a comment\n"))
	var f Field
	for p.Next(&f) {
	}
	if err := p.Err(); err == nil {
		t.Fatalf("Next returned false but Err() is nil: the end of input was not reached or not reported")
	}
}

// A read error in the middle of a line must be reported as itself, not as ErrUnexpectedEOF.
func TestVerifProbeErrMasksReadError(t *testing.T) {
	boom := errors.New("boom")
	p := New(&failAfter{data: "data: x\n\ndata: par", err: boom})
	var f Field
	for p.Next(&f) {
	}
	if err := p.Err(); !errors.Is(err, boom) {
		t.Fatalf("Err() = %v, want the read error %v", err, boom)
	}
	_ = io.EOF
}
