package sse

import "testing"

type probeWriter struct{ sent []string }

func (p *probeWriter) Send(m *Message) error { p.sent = append(p.sent, m.ID.String()); return nil }
func (p *probeWriter) Flush() error          { return nil }

func replayIDs(t *testing.T, r Replayer, last EventID) []string {
	w := &probeWriter{}
	if err := r.Replay(Subscription{Client: w, LastEventID: last, Topics: []string{"t"}}); err != nil {
		t.Fatal(err)
	}
	return w.sent
}

func TestVerifProbeNewestManual(t *testing.T) {
	r, _ := NewFiniteReplayer(2, false)
	for _, id := range []string{"a", "b"} { // tail wraps to 0 after the second Put
		m := &Message{ID: ID(id)}
		m.AppendData("x")
		if _, err := r.Put(m, []string{"t"}); err != nil {
			t.Fatal(err)
		}
	}
	if got := replayIDs(t, r, ID("b")); len(got) != 0 {
		t.Fatalf("newest ID (manual, wrapped tail) replayed %v", got)
	}
}

func TestVerifProbeNewestAuto(t *testing.T) {
	r, _ := NewFiniteReplayer(3, true)
	for i := 0; i < 3; i++ {
		m := &Message{}
		m.AppendData("x")
		if _, err := r.Put(m, []string{"t"}); err != nil {
			t.Fatal(err)
		}
	}
	if got := replayIDs(t, r, ID("2")); len(got) != 0 {
		t.Fatalf("newest ID (auto) replayed %v", got)
	}
}

func TestVerifProbeNeverIssuedAuto(t *testing.T) {
	r, _ := NewFiniteReplayer(4, true)
	for i := 0; i < 3; i++ {
		m := &Message{}
		m.AppendData("x")
		if _, err := r.Put(m, []string{"t"}); err != nil {
			t.Fatal(err)
		}
	}
	if got := replayIDs(t, r, ID("00")); len(got) != 0 {
		t.Fatalf("never-issued ID \"00\" (auto) replayed %v", got)
	}
}
