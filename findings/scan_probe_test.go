package sse

import "testing"

func TestVerifProbeScanMultiline(t *testing.T) {
	var id EventID
	err := id.Scan("a\nretry: 1")
	if id.IsSet() {
		m := &Message{ID: id}
		m.AppendData("x")
		t.Fatalf("Scan accepted a multi-line value (err=%v); wire form injects a field: %q", err, m.String())
	}
	if err == nil {
		t.Fatalf("Scan reported no error for a multi-line value")
	}
}
