package sse_test

import (
	"strings"
	"testing"

	"github.com/tmaxmax/go-sse"
)

func verifProbeEvents(in string) []sse.Event {
	var got []sse.Event
	sse.Read(strings.NewReader(in), nil)(func(ev sse.Event, err error) bool {
		if err != nil {
			return false
		}
		got = append(got, ev)
		return true
	})
	return got
}

// The WHATWG algorithm strips one U+FEFF only at the very start of the stream. After a leading blank line the
// bytes EF BB BF belong to the field name (BOM+"data"), which is not a known field: the line is ignored and
// no event is dispatched.
func TestVerifProbeBOMOnlyAtStreamStart(t *testing.T) {
	for _, in := range []string{"\n\xEF\xBB\xBFdata: x\n\n", "\r\n\n\xEF\xBB\xBFdata: x\n\n"} {
		if got := verifProbeEvents(in); len(got) != 0 {
			t.Errorf("input %q: got %d event(s) %+v, the specification prescribes none (BOM is not at offset 0)", in, len(got), got)
		}
	}
	// control: at offset 0 it is stripped
	if got := verifProbeEvents("\xEF\xBB\xBFdata: x\n\n"); len(got) != 1 || got[0].Data != "x" {
		t.Errorf("BOM at offset 0 must be stripped: got %+v", got)
	}
}
