package sse_test

import (
	"io"
	"strings"
	"testing"

	"github.com/tmaxmax/go-sse"
)

// a reader that hands out fixed chunks and returns io.EOF together with the last one (allowed by io.Reader and
// common for HTTP bodies)
type verifChunkReader struct{ chunks []string }

func (r *verifChunkReader) Read(p []byte) (int, error) {
	if len(r.chunks) == 0 {
		return 0, io.EOF
	}
	n := copy(p, r.chunks[0])
	if n < len(r.chunks[0]) {
		r.chunks[0] = r.chunks[0][n:]
		return n, nil
	}
	r.chunks = r.chunks[1:]
	if len(r.chunks) == 0 {
		return n, io.EOF
	}
	return n, nil
}

// The CR and the LF of an event-ending CRLF arrive in different reads, and the last read returns its data together
// with io.EOF: every event of the stream must still be delivered.
func TestVerifProbeCRLFCutWithDataAndEOFTogether(t *testing.T) {
	r := &verifChunkReader{chunks: []string{"data:x\n\r", "\ndata:y\n\ndata:z\n\n"}}
	var got []string
	var gotErr error
	sse.Read(r, nil)(func(e sse.Event, err error) bool {
		if err != nil {
			gotErr = err
			return false
		}
		got = append(got, e.Data)
		return true
	})
	if gotErr != nil || strings.Join(got, ",") != "x,y,z" {
		t.Fatalf("got events %v, error %v; want x,y,z and no error", got, gotErr)
	}
}
