package sse_test

import (
	"strings"
	"testing"
	"testing/iotest"

	"github.com/tmaxmax/go-sse"
)

// C20: "a stream in which every event, together with the blank lines preceding it, is smaller than the limit is
// delivered completely". Limit 12. The first event ends with CR LF (9 bytes), the second one is "\ndata:x\n:c\n"
// (11 bytes, dispatched at the clean end). When the reader delivers the CR and the LF separately, the LF used to be
// counted as a blank line in front of the second event, which then reached the limit: ErrTooLong instead of the event.
func TestVerifProbeCRLFCutCountsTowardsNextEvent(t *testing.T) {
	in := "data:x\n\r\n\ndata:x\n:c\n"
	var got []sse.Event
	var gotErr error
	sse.Read(iotest.OneByteReader(strings.NewReader(in)), &sse.ReadConfig{MaxEventSize: 12})(func(e sse.Event, err error) bool {
		if err != nil {
			gotErr = err
			return false
		}
		got = append(got, e)
		return true
	})
	if gotErr != nil || len(got) != 2 || got[0].Data != "x" || got[1].Data != "x" {
		t.Fatalf("got %+v, error %v; want two events with data x and no error (both events are smaller than the limit)", got, gotErr)
	}
}
