package sse

import (
	"errors"
	"testing"
	"time"
)

type failingWriter struct{}

func (failingWriter) Send(*Message) error { return errors.New("client gone") }
func (failingWriter) Flush() error        { return nil }

// Subscribe's protocol played by hand on the real loop: the subscriber's Send fails (the loop reports the error on
// done, removes the subscriber and closes done); the request context is cancelled at the same time, and Subscribe's
// last select - where both "err := <-done" and "j.unsubscription <- done" are ready - picks the unsubscription.
// The loop then closes the already closed channel: "panic: close of closed channel" kills the process.
func TestVerifProbeJoeDoubleClose(t *testing.T) {
	j := &Joe{}
	j.init()
	done := make(chan error, 1)
	j.subscription <- subscription{done: done, Subscription: Subscription{Client: failingWriter{}, Topics: []string{DefaultTopic}}}
	m := &Message{}
	m.AppendData("x")
	if err := j.Publish(m, []string{DefaultTopic}); err != nil {
		t.Fatal(err)
	}
	// the loop has reported the error and closed done by now (Publish returned, the fan-out is part of the same iteration)
	select {
	case j.unsubscription <- done: // what Subscribe does when the context is cancelled
	case <-time.After(time.Second):
		t.Fatal("loop not receiving")
	}
	// give the loop's goroutine time to crash the process
	time.Sleep(100 * time.Millisecond)
	if err := j.Publish(m, []string{DefaultTopic}); err != nil {
		t.Fatalf("provider is dead: %v", err)
	}
}
