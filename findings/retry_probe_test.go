package sse

import (
	"strings"
	"testing"

	"github.com/tmaxmax/go-sse/internal/parser"
)

// WHATWG: a retry value is used only if it consists of ASCII digits only.
func TestVerifProbeSignedRetry(t *testing.T) {
	for _, in := range []string{"retry: +7\n\n", "retry: -0\n\n"} {
		var got []int64
		events := 0
		read(func() *parser.Parser { return parser.New(strings.NewReader(in)) }, "", func(n int64) { got = append(got, n) }, true)(func(Event, error) bool {
			events++
			return true
		})
		if len(got) != 0 || events != 0 {
			t.Errorf("stream %q: onRetry called with %v, %d event(s) dispatched; a signed value is not a valid retry field", in, got, events)
		}
	}
}
